//go:build verif

package client

import (
	"bufio"
	"context"
)

// vCheckPieces: the C11 obligations on a split of msg with effective limit S.
func vCheckPieces(msg string, pieces []string, S int) {
	if len(msg) <= S {
		vAssert(len(pieces) == 1 && pieces[0] == msg, "short-unsplit")
		return
	}
	vAssert(len(pieces) >= 2, "long-is-split")
	joined := ""
	for i, p := range pieces {
		vAssert(len(p) <= S, "piece-bound")
		vAssert(len(p) > 0, "piece-nonempty")
		if i < len(pieces)-1 {
			ok := len(p) >= 3 && p[len(p)-3:] == "..."
			vAssert(ok, "piece-marker")
			if ok {
				vAssert(len(p) > 3, "piece-not-only-marker")
				joined += p[:len(p)-3]
			}
		} else {
			joined += p
		}
	}
	vAssert(joined == msg, "lossless")
}

func vGenText(name string, n int) string {
	msg := vStr(name, n)
	for i := 0; i < n; i++ {
		vAssume(msg[i] != '\r' && msg[i] != '\n')
	}
	return msg
}

// VerifC11Split: splitMessage itself, explicit SplitLen >= 13.
func VerifC11Split() {
	vSetOpt("symIndex", 1)
	S := vLen("S", 13, vParam("SMAX", 14))
	n := vLen("n", 0, S+vParam("EXTRA", 8))
	msg := vGenText("msg", n)
	pieces := splitMessage(msg, S)
	for _, p := range pieces {
		vObserve("piece", p)
	}
	vCheckPieces(msg, pieces, S)
	vReach("end")
}

var vC11SmallLens = []int{-5, 0, 1, 12}

// VerifC11Default: SplitLen below 13 (or unset) means 450. The first 450-K
// bytes are a fixed filler without split points (a fully symbolic 451-byte
// text was tried and the solver timed out); the K bytes before offset 450 and
// the bytes after it are symbolic, so every layout around the cut is covered.
func VerifC11Default() {
	vSetOpt("symIndex", 1)
	sl := vC11SmallLens[vLen("sl", 0, len(vC11SmallLens)-1)]
	K := vParam("K", 8)
	filler := make([]byte, 450-K)
	for i := range filler {
		filler[i] = 'a'
	}
	tail := vGenText("tail", K+vLen("over", 0, vParam("OVER", 2)))
	msg := string(filler) + tail
	pieces := splitMessage(msg, sl)
	vCheckPieces(msg, pieces, 450)
	vReach("end")
}

// VerifC11SymLen: any SplitLen below 13 takes the default, decided on the comparison alone.
func VerifC11SymLen() {
	sl := vInt("splitlen")
	vAssume(sl < 13)
	msg := vGenText("msg", vLen("n", 0, 3))
	pieces := splitMessage(msg, sl)
	vAssert(len(pieces) == 1 && pieces[0] == msg, "short-unsplit")
	vReach("end")
}

// VerifC11Wire: Privmsg / Notice / Ctcp / CtcpReply / Action / Privmsgf put the pieces on
// the wire, in order, each as its own message to the same target.
func VerifC11Wire() {
	vSetOpt("symIndex", 1)
	S := 13
	conn := vBareConn(&Config{SplitLen: S, Flood: true}, false)
	which := vLen("method", 0, 5)
	n := vLen("n", 0, S+vParam("EXTRA", 6))
	msg := vGenText("msg", n)
	t := vStr("t", 1)
	vAssume(t[0] != '\r' && t[0] != '\n')
	prefix, suffix := "", ""
	switch which {
	case 0:
		conn.Privmsg(t, msg)
		prefix = "PRIVMSG " + t + " :"
	case 1:
		conn.Notice(t, msg)
		prefix = "NOTICE " + t + " :"
	case 2:
		conn.Ctcp(t, "X", msg)
		prefix, suffix = "PRIVMSG "+t+" :\001X", "\001"
	case 3:
		conn.CtcpReply(t, "X", msg)
		prefix, suffix = "NOTICE "+t+" :\001X", "\001"
	case 4:
		conn.Action(t, msg)
		prefix, suffix = "PRIVMSG "+t+" :\001ACTION", "\001"
	case 5:
		conn.Privmsgf(t, "%s", msg)
		prefix = "PRIVMSG " + t + " :"
	}
	lines := vDrain(conn)
	if which == 5 {
		// fmt is a stub (any text): only the framing is checked
		for _, l := range lines {
			vAssert(len(l) >= len(prefix) && l[:len(prefix)] == prefix, "wire-prefix")
			vAssert(len(l)-len(prefix) <= S, "piece-bound")
		}
		vReach("end")
		return
	}
	var pieces []string
	for _, l := range lines {
		ok := len(l) >= len(prefix)+len(suffix) && l[:len(prefix)] == prefix && l[len(l)-len(suffix):] == suffix
		vAssert(ok, "wire-frame")
		if !ok {
			return
		}
		p := l[len(prefix) : len(l)-len(suffix)]
		if which >= 2 && p != "" {
			vAssert(p[0] == ' ', "ctcp-space")
			p = p[1:]
		}
		pieces = append(pieces, p)
	}
	vCheckPieces(msg, pieces, S)
	vReach("end")
}

var _ = bufio.NewReader

func vFiller(c byte, n int) string {
	b := make([]byte, n)
	for i := range b {
		b[i] = c
	}
	return string(b)
}

// vSplitLines cuts a wire transcript at CRLF; ok is false when it does not end in CRLF.
func vSplitLines(all string) (lines []string, ok bool) {
	start := 0
	for i := 0; i+1 < len(all); i++ {
		if all[i] == '\r' && all[i+1] == '\n' {
			lines = append(lines, all[start:i])
			start = i + 2
			i++
		}
	}
	return lines, start == len(all)
}

// VerifC11Long: a connected client (real send goroutine, real write) sends a text
// just over a large SplitLen, or over the default 450 to a long target: the
// pieces are read back from the bytes that reached the server end. The text is
// a filler without split points with K symbolic bytes before the limit and up
// to OVER after it.
func VerifC11Long() {
	vSetOpt("symIndex", 1)
	S := vParam("SL", 600)
	eff := S
	if S < 13 {
		eff = 450
	}
	K := vParam("K", 4)
	tgt := vFiller('t', vParam("TGT", 1))
	msg := vFiller('a', eff-K) + vGenText("tail", K+vLen("over", 0, vParam("OVER", 2)))
	cfg := NewConfig("me")
	cfg.Server, cfg.Proxy = "srv:1", "vtest://proxy"
	cfg.PingFreq = 0
	cfg.SplitLen = S
	cfg.Flood = true
	w := vNewLiveWire()
	vInstallDialer(&vDialer{wire: w})
	conn := Client(cfg)
	ctx, cancel := context.WithCancel(context.Background())
	err := conn.ConnectContext(ctx)
	vAssume(err == nil)
	vRunPending()
	before := len(w.written)
	prefix, suffix := "", ""
	which := vLen("method", 0, 3)
	switch which {
	case 0:
		conn.Privmsg(tgt, msg)
		prefix = "PRIVMSG " + tgt + " :"
	case 1:
		conn.Notice(tgt, msg)
		prefix = "NOTICE " + tgt + " :"
	case 2:
		conn.Ctcp(tgt, "X", msg)
		prefix, suffix = "PRIVMSG "+tgt+" :\001X ", "\001"
	case 3:
		conn.CtcpReply(tgt, "X", msg)
		prefix, suffix = "NOTICE "+tgt+" :\001X ", "\001"
	}
	vRunPending()
	all := ""
	for _, x := range w.written[before:] {
		all += x
	}
	lines, ok := vSplitLines(all)
	vAssert(ok, "wire-frame")
	var pieces []string
	for _, l := range lines {
		ok := len(l) >= len(prefix)+len(suffix) && l[:len(prefix)] == prefix && l[len(l)-len(suffix):] == suffix
		vAssert(ok, "wire-frame")
		if !ok {
			return
		}
		pieces = append(pieces, l[len(prefix):len(l)-len(suffix)])
	}
	vCheckPieces(msg, pieces, eff)
	cancel()
	conn.Close()
	vRunPending()
	vReach("end")
}

// VerifC11Many: a text that splits into more pieces than the output queue holds (32), sent to a
// peer that reads nothing until the call has got as far as it can; Config.Timeout 0 or the
// default. Every piece arrives, in order, and the pieces join to the text.
func VerifC11Many() {
	vSetOpt("symIndex", 1)
	S := 13
	np := vParam("PIECES", 40)
	msg := vFiller('a', (S-3)*np-4) + vGenText("tail", 2)
	cfg := NewConfig("me")
	cfg.Server, cfg.Proxy = "srv:1", "vtest://proxy"
	cfg.PingFreq = 0
	cfg.SplitLen = S
	cfg.Flood = true
	if vLen("timeout0", 0, 1) == 1 {
		cfg.Timeout = 0 // "wait indefinitely"
	}
	w := vNewLiveWire()
	w.writeGate = make(chan struct{}, np+16)
	w.writeGate <- struct{}{} // NICK
	w.writeGate <- struct{}{} // USER
	vInstallDialer(&vDialer{wire: w})
	conn := Client(cfg)
	err := conn.Connect()
	vAssume(err == nil)
	vRunPending()
	before := len(w.written)
	done := false
	go func() { conn.Privmsg("#c", msg); done = true }()
	vRunPending() // the queue is full, the sender is stuck in the socket write, the caller waits
	for i := 0; i < np+8; i++ {
		w.writeGate <- struct{}{} // the peer reads again
	}
	vRunPending()
	vAssert(done, "many:call-returned")
	all := ""
	for _, x := range w.written[before:] {
		all += x
	}
	lines, ok := vSplitLines(all)
	vAssert(ok, "wire-frame")
	prefix := "PRIVMSG #c :"
	var pieces []string
	for _, l := range lines {
		ok := len(l) >= len(prefix) && l[:len(prefix)] == prefix
		vAssert(ok, "wire-frame")
		if !ok {
			return
		}
		pieces = append(pieces, l[len(prefix):])
	}
	vCheckPieces(msg, pieces, S)
	conn.Close()
	vRunPending()
	vReach("end")
}
