//go:build verif

package client

import (
	"context"
)

var vC08SplitLens = []int{-1, 0, 12, 13, 16, 450}

// vC08Fill: concrete filler put in front of every symbolic argument (0 = none); the "very long" arguments.
var vC08Fill string

func vArg(name string) string {
	return vC08Fill + vStr(name, vLen(name+"len", 0, vParam("A", 3)))
}

func vVariadic(name string) []string {
	k := vLen(name+"n", 0, vParam("V", 2))
	var out []string
	for i := 0; i < k; i++ {
		out = append(out, vArg(name+string([]byte{byte('0' + i)})))
	}
	return out
}

// vC08Call calls one exported command method with arbitrary arguments and
// returns the verb every line it causes must begin with ("" for Raw: any).
func vC08Call(conn *Conn) (verb string, anyVerb bool) {
	switch vLen("method", 0, 27) {
	case 0:
		conn.Raw(vArg("a"))
		anyVerb = true
	case 1:
		conn.Pass(vArg("a"))
		verb = "PASS"
	case 2:
		conn.Nick(vArg("a"))
		verb = "NICK"
	case 3:
		conn.User(vArg("a"), vArg("b"))
		verb = "USER"
	case 4:
		conn.Join(vArg("a"), vVariadic("k")...)
		verb = "JOIN"
	case 5:
		conn.Part(vArg("a"), vVariadic("m")...)
		verb = "PART"
	case 6:
		conn.Kick(vArg("a"), vArg("b"), vVariadic("m")...)
		verb = "KICK"
	case 7:
		conn.Quit(vVariadic("m")...)
		verb = "QUIT"
	case 8:
		conn.Whois(vArg("a"))
		verb = "WHOIS"
	case 9:
		conn.Who(vArg("a"))
		verb = "WHO"
	case 10:
		conn.Privmsg(vArg("a"), vArg("b"))
		verb = "PRIVMSG"
	case 11:
		conn.Privmsgln(vArg("a"), vArg("b"), 7)
		verb = "PRIVMSG"
	case 12:
		conn.Privmsgf(vArg("a"), vArg("b"), vArg("c"))
		verb = "PRIVMSG"
	case 13:
		conn.Notice(vArg("a"), vArg("b"))
		verb = "NOTICE"
	case 14:
		c := vArg("b")
		vASCII(c)
		conn.Ctcp(vArg("a"), c, vVariadic("m")...)
		verb = "PRIVMSG"
	case 15:
		c := vArg("b")
		vASCII(c)
		conn.CtcpReply(vArg("a"), c, vVariadic("m")...)
		verb = "NOTICE"
	case 16:
		conn.Version(vArg("a"))
		verb = "PRIVMSG"
	case 17:
		conn.Action(vArg("a"), vArg("b"))
		verb = "PRIVMSG"
	case 18:
		conn.Topic(vArg("a"), vVariadic("m")...)
		verb = "TOPIC"
	case 19:
		conn.Mode(vArg("a"), vVariadic("m")...)
		verb = "MODE"
	case 20:
		conn.Away(vVariadic("m")...)
		verb = "AWAY"
	case 21:
		conn.Invite(vArg("a"), vArg("b"))
		verb = "INVITE"
	case 22:
		conn.Oper(vArg("a"), vArg("b"))
		verb = "OPER"
	case 23:
		conn.VHost(vArg("a"), vArg("b"))
		verb = "VHOST"
	case 24:
		conn.Ping(vArg("a"))
		verb = "PING"
	case 25:
		conn.Pong(vArg("a"))
		verb = "PONG"
	case 26:
		conn.Cap(vArg("a"), vVariadic("m")...)
		verb = "CAP"
	case 27:
		conn.Authenticate(vArg("a"))
		verb = "AUTHENTICATE"
	}
	return verb, anyVerb
}

// VerifC08Commands: every exported command method, with arbitrary bytes in
// every argument, queues only CR/LF-free lines that begin with its own verb;
// the real write() then puts exactly line+CRLF on the wire, one flush per line.
func VerifC08Commands() {
	vC08Fill = ""
	sl := vC08SplitLens[vLen("splitlen", 0, len(vC08SplitLens)-1)]
	cfg := &Config{SplitLen: sl, Flood: true, QuitMessage: vArg("quitmsg")}
	w := vNewWire()
	conn := vBareConn(cfg, false)
	conn.sock = w
	conn.postConnect(nil, false) // the connection's reader / writer, however the tree under test sets them up
	verb, anyVerb := vC08Call(conn)
	lines := vDrain(conn)
	vAssert(len(lines) >= 1, "queued-something")
	for _, l := range lines {
		vAssert(!vHasCRLF(l), "no-crlf-in-line")
		if !anyVerb {
			vAssert(vHasVerb(l, verb), "own-verb")
		}
	}
	for _, l := range lines {
		err := conn.write(l)
		vAssert(err == nil, "write-ok")
	}
	for _, x := range w.written {
		vObserve("wire", x)
	}
	vAssert(len(w.written) == len(lines), "one-flush-per-line")
	if len(w.written) == len(lines) {
		for i, l := range lines {
			vAssert(w.written[i] == l+"\r\n", "wire-is-line-crlf")
		}
	}
	vReach("end")
}

// VerifC08Wire: the same calls against a connected client whose real send
// goroutine writes to the wire; only the bytes that reach the server end are
// looked at: CRLF-terminated lines, nothing else, no CR or LF inside, each
// beginning with the verb of the method called. With FILL > 0 every argument
// starts with that many filler bytes (lines around and beyond 512 bytes).
func VerifC08Wire() {
	vC08Fill = ""
	if f := vParam("FILL", 0); f > 0 {
		n := vLen("fill", f, f+vParam("FILLSPAN", 0))
		b := make([]byte, n)
		for i := range b {
			b[i] = 'x'
		}
		vC08Fill = string(b)
	}
	sls := vC08SplitLens
	if vParam("FILL", 0) > 0 {
		sls = []int{0, 13, 600}[:vParam("NSL", 3)]
	}
	sl := sls[vLen("splitlen", 0, len(sls)-1)]
	cfg := NewConfig("me")
	cfg.Server, cfg.Proxy = "srv:1", "vtest://proxy"
	cfg.PingFreq = 0
	cfg.SplitLen = sl
	cfg.Flood = true
	if vLen("method", 0, 27) == 7 {
		cfg.QuitMessage = vArg("quitmsg") // only Quit reads it
	}
	w := vNewLiveWire()
	vInstallDialer(&vDialer{wire: w})
	conn := Client(cfg)
	ctx, cancel := context.WithCancel(context.Background())
	err := conn.ConnectContext(ctx)
	vAssume(err == nil)
	vRunPending()
	before := len(w.written)
	// should the client ever set a write deadline: the peer is slow once - the first write of
	// the call under test gets through except for its last byte before the deadline passes
	w.partialOn, w.partialDL, w.partialAt, w.partialN = true, true, w.writes, -1
	verb, anyVerb := vC08Call(conn)
	vRunPending()
	all := ""
	for _, x := range w.written[before:] {
		all += x
	}
	vObserve("wire", all)
	vAssert(len(all) >= 2, "wrote-something")
	// whole CRLF-terminated lines only, no stray CR or LF, every line with the method's verb
	vAssert(vWireTerminated(all), "wire-ends-with-crlf")
	vAssert(!vWireBare(all), "no-crlf-in-line")
	if !anyVerb {
		vAssert(vWireVerbs(all, verb), "own-verb")
	}
	cancel()
	conn.Close()
	vRunPending()
	vReach("end")
}

// VerifC08Reconnect: a socket write of the first connection is cut short by an error in the
// middle of a caller-supplied text (a connection reset mid-send); the connection ends. On the
// next connection of the same client the server end again sees nothing but whole lines of
// the verbs that were called there (NICK / USER from the registration, then NICK): no left-over
// of the earlier call's text starts a line.
func VerifC08Reconnect() {
	cfg := NewConfig("me")
	cfg.Server, cfg.Proxy, cfg.PingFreq, cfg.Flood = "srv:1", "vtest://p", 0, true
	w1, w2 := vNewLiveWire(), vNewLiveWire()
	vInstallDialer(&vDialer{wires: []*vWire{w1, w2}})
	conn := Client(cfg)
	err := conn.Connect()
	vAssume(err == nil)
	vRunPending()
	text := "hello " + vStr("tail", 2)
	vAssume(text[6] != '\r' && text[6] != '\n' && text[7] != '\r' && text[7] != '\n')
	w1.partialOn, w1.partialAt, w1.partialN = true, w1.writes, len("PRIVMSG #chan :")+vLen("cut", 1, 7)
	conn.Privmsg("#chan", text)
	vRunPending()
	if conn.Connected() {
		conn.Close() // (an implementation may survive the failed write; the property does not say)
		vRunPending()
	}
	err = conn.Connect()
	vAssume(err == nil)
	vRunPending()
	conn.Nick("newnick")
	vRunPending()
	all := ""
	for _, x := range w2.written {
		all += x
	}
	vAssert(len(all) > 0, "wrote-something")
	vAssert(vWireTerminated(all), "wire-ends-with-crlf")
	vAssert(!vWireBare(all), "no-crlf-in-line")
	lines, _ := vSplitLines(all)
	for _, l := range lines {
		vAssert(vHasVerb(l, "NICK") || vHasVerb(l, "USER"), "own-verb")
	}
	conn.Close()
	vRunPending()
	vReach("end")
}
