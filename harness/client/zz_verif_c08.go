//go:build verif

package client

import "bufio"

var vC08SplitLens = []int{-1, 0, 12, 13, 16, 450}

func vArg(name string) string {
	return vStr(name, vLen(name+"len", 0, vParam("A", 3)))
}

func vVariadic(name string) []string {
	k := vLen(name+"n", 0, vParam("V", 2))
	var out []string
	for i := 0; i < k; i++ {
		out = append(out, vArg(name+string([]byte{byte('0' + i)})))
	}
	return out
}

// VerifC08Commands: every exported command method, with arbitrary bytes in
// every argument, queues only CR/LF-free lines that begin with its own verb;
// the real write() then puts exactly line+CRLF on the wire, one flush per line.
func VerifC08Commands() {
	sl := vC08SplitLens[vLen("splitlen", 0, len(vC08SplitLens)-1)]
	cfg := &Config{SplitLen: sl, Flood: true, QuitMessage: vArg("quitmsg")}
	w := vNewWire()
	conn := &Conn{cfg: cfg, out: make(chan string, 64)}
	conn.io = bufio.NewReadWriter(bufio.NewReader(w), bufio.NewWriter(w))
	verb := ""
	anyVerb := false
	switch vLen("method", 0, 27) {
	case 0:
		conn.Raw(vArg("a"))
		anyVerb = true
	case 1:
		conn.Pass(vArg("a"))
		verb = "PASS"
	case 2:
		conn.Nick(vArg("a"))
		verb = "NICK"
	case 3:
		conn.User(vArg("a"), vArg("b"))
		verb = "USER"
	case 4:
		conn.Join(vArg("a"), vVariadic("k")...)
		verb = "JOIN"
	case 5:
		conn.Part(vArg("a"), vVariadic("m")...)
		verb = "PART"
	case 6:
		conn.Kick(vArg("a"), vArg("b"), vVariadic("m")...)
		verb = "KICK"
	case 7:
		conn.Quit(vVariadic("m")...)
		verb = "QUIT"
	case 8:
		conn.Whois(vArg("a"))
		verb = "WHOIS"
	case 9:
		conn.Who(vArg("a"))
		verb = "WHO"
	case 10:
		conn.Privmsg(vArg("a"), vArg("b"))
		verb = "PRIVMSG"
	case 11:
		conn.Privmsgln(vArg("a"), vArg("b"), 7)
		verb = "PRIVMSG"
	case 12:
		conn.Privmsgf(vArg("a"), vArg("b"), vArg("c"))
		verb = "PRIVMSG"
	case 13:
		conn.Notice(vArg("a"), vArg("b"))
		verb = "NOTICE"
	case 14:
		c := vArg("b")
		vASCII(c)
		conn.Ctcp(vArg("a"), c, vVariadic("m")...)
		verb = "PRIVMSG"
	case 15:
		c := vArg("b")
		vASCII(c)
		conn.CtcpReply(vArg("a"), c, vVariadic("m")...)
		verb = "NOTICE"
	case 16:
		conn.Version(vArg("a"))
		verb = "PRIVMSG"
	case 17:
		conn.Action(vArg("a"), vArg("b"))
		verb = "PRIVMSG"
	case 18:
		conn.Topic(vArg("a"), vVariadic("m")...)
		verb = "TOPIC"
	case 19:
		conn.Mode(vArg("a"), vVariadic("m")...)
		verb = "MODE"
	case 20:
		conn.Away(vVariadic("m")...)
		verb = "AWAY"
	case 21:
		conn.Invite(vArg("a"), vArg("b"))
		verb = "INVITE"
	case 22:
		conn.Oper(vArg("a"), vArg("b"))
		verb = "OPER"
	case 23:
		conn.VHost(vArg("a"), vArg("b"))
		verb = "VHOST"
	case 24:
		conn.Ping(vArg("a"))
		verb = "PING"
	case 25:
		conn.Pong(vArg("a"))
		verb = "PONG"
	case 26:
		conn.Cap(vArg("a"), vVariadic("m")...)
		verb = "CAP"
	case 27:
		conn.Authenticate(vArg("a"))
		verb = "AUTHENTICATE"
	}
	lines := vDrain(conn)
	vAssert(len(lines) >= 1, "queued-something")
	for _, l := range lines {
		vAssert(!vHasCRLF(l), "no-crlf-in-line")
		if !anyVerb {
			vAssert(vHasVerb(l, verb), "own-verb")
		}
	}
	for _, l := range lines {
		err := conn.write(l)
		vAssert(err == nil, "write-ok")
	}
	for _, x := range w.written {
		vObserve("wire", x)
	}
	vAssert(len(w.written) == len(lines), "one-flush-per-line")
	if len(w.written) == len(lines) {
		for i, l := range lines {
			vAssert(w.written[i] == l+"\r\n", "wire-is-line-crlf")
		}
	}
	vReach("end")
}
