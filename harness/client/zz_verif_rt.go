//go:build verif

package client

// Harness runtime for package client. The symbolic executor intercepts the
// primitives (vStr, vLen, vInt, vBool, vByte, vParam, vAssume, vAssert, vReach,
// vRunPending, vSetOpt, vEventCount, vEventInt, vLockFree); the bodies below are
// the native implementation used when a counterexample is replayed with
// `go test -tags verif -overlay`.

import (
	"encoding/json"
	"errors"
	"fmt"
	"io"
	"net"
	"net/url"
	"os"
	"runtime"
	"sync"
	"time"

	"golang.org/x/net/proxy"
)

type vVector struct {
	Inputs map[string]json.RawMessage `json:"inputs"`
	Params map[string]int             `json:"params"`
}

var (
	vOnce     sync.Once
	vVec      vVector
	vFailures []string
	vReachedL []string
	vMu       sync.Mutex
)

func vLoad() {
	vOnce.Do(func() {
		if p := os.Getenv("VERIF_REPLAY"); p != "" {
			b, err := os.ReadFile(p)
			if err != nil {
				panic(err)
			}
			if err := json.Unmarshal(b, &vVec); err != nil {
				panic(err)
			}
		}
	})
}

type vAssumeFailed struct{ what string }

func vStr(name string, n int) string {
	vLoad()
	var bs []int
	if raw, ok := vVec.Inputs[name]; ok {
		json.Unmarshal(raw, &bs)
	}
	out := make([]byte, n)
	for i := 0; i < n && i < len(bs); i++ {
		out[i] = byte(bs[i])
	}
	return string(out)
}

func vLen(name string, lo, hi int) int {
	vLoad()
	v := lo
	if raw, ok := vVec.Inputs[name]; ok {
		json.Unmarshal(raw, &v)
	}
	if v < lo || v > hi {
		panic(vAssumeFailed{"vLen " + name})
	}
	return v
}

func vInt(name string) int {
	vLoad()
	v := 0
	if raw, ok := vVec.Inputs[name]; ok {
		json.Unmarshal(raw, &v)
	}
	return v
}

func vBool(name string) bool {
	vLoad()
	v := false
	if raw, ok := vVec.Inputs[name]; ok {
		json.Unmarshal(raw, &v)
	}
	return v
}

func vByte(name string) byte { return byte(vInt(name)) }

func vParam(name string, def int) int {
	vLoad()
	if v, ok := vVec.Params[name]; ok {
		return v
	}
	return def
}

func vAssume(c bool) {
	if !c {
		panic(vAssumeFailed{"vAssume"})
	}
}

func vAssert(c bool, label string) {
	vMu.Lock()
	vAssertLog = append(vAssertLog, label)
	if !c {
		vFailures = append(vFailures, label)
	}
	vMu.Unlock()
}

// vObserve records a value for the executor-vs-compiler validation: the
// executor predicts it from the solver's model, the native run reports it.
func vObserve(label, val string) {
	vMu.Lock()
	vObsLog = append(vObsLog, fmt.Sprintf("%s=%x", label, val))
	vMu.Unlock()
}

var vAssertLog, vObsLog []string

func vReach(label string) {
	vMu.Lock()
	vReachedL = append(vReachedL, label)
	vMu.Unlock()
}

// vRunPending: the executor runs all spawned goroutines to completion here;
// natively, give background goroutines time to finish.
func vRunPending()               { time.Sleep(150 * time.Millisecond) }
func vSetOpt(name string, v int) {}
func vNote(s string)             {}

// vPanics runs f and reports whether a panic escaped it.
func vPanics(f func()) (p bool) {
	defer func() {
		if r := recover(); r != nil {
			if af, ok := r.(vAssumeFailed); ok {
				panic(af)
			}
			p = true
		}
	}()
	f()
	return false
}

// vASCII assumes every byte of s is < 0x80.
func vASCII(s string) {
	for i := 0; i < len(s); i++ {
		vAssume(s[i] < 0x80)
	}
}

func vFmt(format string, a ...interface{}) string { return fmt.Sprintf(format, a...) }

// vWire is an in-memory net.Conn: successive Read calls deliver the chunks,
// every Write call is recorded.
type vWire struct {
	chunks      []string
	pos, off    int
	readErr     error // returned once the chunks are exhausted (default io.EOF)
	written     []string
	failWriteAt int // index of the Write call that fails (-1: never)
	closed      int
	stamp       bool          // read the model clock at every Write
	stamps      []int         // those readings (ns)
	writeGate   chan struct{} // if non-nil: every Write first waits for a token (slow / bursty peer)
	hold        chan struct{} // if non-nil: when the chunks are exhausted Read blocks until Close
	partialOn   bool          // the partialAt-th Write call accepts only partialN bytes and reports a timeout
	partialAt   int
	partialN    int
	writes      int           // Write calls that got as far as the socket
	rdeadline   bool          // a read deadline is set (SetReadDeadline / SetDeadline with a non-zero time)
	wdeadline   bool          // a write deadline is set
	stallAt     int           // if a read deadline is set: the peer stalls once after this many bytes of the stream (0: never) ...
	stalled     bool          // ... it has
	stallNext   bool          // ... and the next Read reports the timeout
	readPos     int           // bytes delivered so far
	partialDL   bool          // the partial write below happens only if a write deadline is set
	more        chan struct{} // closed by feedEOF: a Read blocked on a live wire looks again
	eof         bool          // set by feedEOF: once the chunks are exhausted Read reports EOF instead of waiting
}

// feed: the peer of a live wire sends one more chunk (a reader blocked on the wire wakes up).
func (w *vWire) feed(chunk string) {
	w.chunks = append(w.chunks, chunk)
	old := w.more
	w.more = make(chan struct{})
	close(old)
}

// feedEOF: the peer of a live wire sends one more chunk and then closes its end
// (the reader gets the chunk, then io.EOF).
func (w *vWire) feedEOF(chunk string) {
	w.chunks = append(w.chunks, chunk)
	w.eof = true
	close(w.more)
}

// vNewLiveWire: a wire whose peer stays silent (Read blocks) until it is closed.
func vNewLiveWire(chunks ...string) *vWire {
	w := vNewWire(chunks...)
	w.hold = make(chan struct{})
	w.more = make(chan struct{})
	return w
}

func vNewWire(chunks ...string) *vWire { return &vWire{chunks: chunks, failWriteAt: -1} }

// Read delivers the next chunk (or the rest of a chunk larger than p).
func (w *vWire) Read(p []byte) (int, error) {
	if w.closed > 0 {
		return 0, errors.New("vWire: use of closed connection")
	}
	for w.pos < len(w.chunks) && w.off >= len(w.chunks[w.pos]) {
		w.pos++
		w.off = 0
	}
	if w.pos >= len(w.chunks) {
		if w.hold != nil && !w.eof {
			select {
			case <-w.hold:
			case <-w.more:
				// the peer sent something more (and then hung up)
				return w.Read(p)
			}
			if w.closed > 0 {
				return 0, errors.New("vWire: use of closed connection")
			}
		}
		if w.readErr != nil {
			return 0, w.readErr
		}
		return 0, io.EOF
	}
	if w.stallNext {
		// the deadline passes while the peer is silent in the middle of a line
		w.stallNext = false
		return 0, vTimeoutErr{}
	}
	src := w.chunks[w.pos][w.off:]
	if w.rdeadline && !w.stalled && w.stallAt > w.readPos && w.stallAt-w.readPos <= len(src) {
		src = src[:w.stallAt-w.readPos]
		w.stalled, w.stallNext = true, true
	}
	n := copy(p, src)
	w.off += n
	w.readPos += n
	return n, nil
}

func (w *vWire) Write(p []byte) (int, error) {
	if w.writeGate != nil {
		// the peer reads only when the harness lets it; closing the socket releases a blocked writer
		if w.hold != nil {
			select {
			case <-w.writeGate:
			case <-w.hold:
				return 0, errors.New("vWire: write on closed connection")
			}
		} else {
			<-w.writeGate
		}
	}
	if w.closed > 0 {
		return 0, errors.New("vWire: write on closed connection")
	}
	if w.stamp {
		w.stamps = append(w.stamps, int(vNow().Sub(time.Time{})))
		vMark("write")
	}
	if w.failWriteAt == len(w.written) {
		w.failWriteAt = -2
		return 0, errors.New("vWire: write failed")
	}
	if w.partialOn && w.partialAt == w.writes && (w.wdeadline || !w.partialDL) {
		// a slow peer: the deadline passes after the first partialN bytes were accepted
		// (partialN < 0: all but the last -partialN bytes)
		w.writes++
		n := w.partialN
		if n < 0 {
			n = len(p) + n
			if n < 0 {
				n = 0
			}
		}
		if n > len(p) {
			n = len(p)
		}
		if n > 0 {
			w.written = append(w.written, string(p[:n]))
		}
		return n, vTimeoutErr{}
	}
	w.writes++
	w.written = append(w.written, string(p))
	return len(p), nil
}

// vTimeoutErr: what a net.Conn returns when a deadline passes (a net.Error with Timeout() true).
type vTimeoutErr struct{}

func (vTimeoutErr) Error() string   { return "vWire: i/o timeout" }
func (vTimeoutErr) Timeout() bool   { return true }
func (vTimeoutErr) Temporary() bool { return true }

func (w *vWire) Close() error {
	w.closed++
	if w.hold != nil && w.closed == 1 {
		close(w.hold)
	}
	return nil
}
func (w *vWire) LocalAddr() net.Addr  { return nil }
func (w *vWire) RemoteAddr() net.Addr { return nil }
func (w *vWire) SetDeadline(t time.Time) error {
	w.rdeadline, w.wdeadline = !t.IsZero(), !t.IsZero()
	return nil
}
func (w *vWire) SetReadDeadline(t time.Time) error  { w.rdeadline = !t.IsZero(); return nil }
func (w *vWire) SetWriteDeadline(t time.Time) error { w.wdeadline = !t.IsZero(); return nil }

// vDrain empties conn.out without blocking.
func vDrain(conn *Conn) []string {
	var out []string
	for {
		select {
		case l := <-conn.out:
			out = append(out, l)
		default:
			return out
		}
	}
}

func vHasCRLF(s string) bool {
	found := false
	for i := 0; i < len(s); i++ {
		found = found || s[i] == '\r' || s[i] == '\n'
	}
	return found
}

// vHasVerb: s is verb, or verb followed by a space.
func vHasVerb(s, verb string) bool {
	if len(s) < len(verb) {
		return false
	}
	if s[:len(verb)] != verb {
		return false
	}
	return len(s) == len(verb) || s[len(verb)] == ' '
}

// --- model clock ------------------------------------------------------------
// The executor replaces time.Now / time.After / time.Since by a model clock
// whose readings are solver variables (now#1, now#2, ...). For native replay
// the runner compiles a temporary copy of the repository files in which those
// calls are renamed to vNow / vAfter / vSince, so that the counterexample's
// clock readings are served exactly.

var (
	vNowLog   []time.Time
	vSleepLog []time.Duration
	vEvLog    []string
)

func vNow() time.Time {
	vLoad()
	vMu.Lock()
	defer vMu.Unlock()
	k := len(vNowLog) + 1
	t := time.Now()
	if raw, ok := vVec.Inputs[fmt.Sprintf("now#%d", k)]; ok {
		var ns int64
		json.Unmarshal(raw, &ns)
		t = time.Time{}.Add(time.Duration(ns))
	}
	vNowLog = append(vNowLog, t)
	vEvLog = append(vEvLog, "now")
	return t
}

func vSince(t time.Time) time.Duration { return vNow().Sub(t) }

func vAfter(d time.Duration) <-chan time.Time {
	vMu.Lock()
	vSleepLog = append(vSleepLog, d)
	vEvLog = append(vEvLog, "sleep")
	vMu.Unlock()
	c := make(chan time.Time, 1)
	c <- vNow()
	return c
}

// vNote records a harness event in the same log as clock readings and sleeps.
func vMark(s string) {
	vMu.Lock()
	vEvLog = append(vEvLog, "mark:"+s)
	vMu.Unlock()
}

// vEventCount / vEventInt / vEventPos read the event log ("now": clock readings in
// nanoseconds since the zero time.Time, "sleep": durations of time.After calls).
func vEventCount(kind string) int {
	vMu.Lock()
	defer vMu.Unlock()
	switch kind {
	case "now":
		return len(vNowLog)
	case "sleep":
		return len(vSleepLog)
	}
	n := 0
	for _, e := range vEvLog {
		if e == kind {
			n++
		}
	}
	return n
}

func vEventInt(kind string, i int) int {
	vMu.Lock()
	defer vMu.Unlock()
	switch kind {
	case "now":
		return int(vNowLog[i].Sub(time.Time{}))
	case "sleep":
		return int(vSleepLog[i])
	}
	return 0
}

// vEventPos is the position of the i-th event of that kind in the global log.
func vEventPos(kind string, i int) int {
	vMu.Lock()
	defer vMu.Unlock()
	for p, e := range vEvLog {
		if e == kind {
			if i == 0 {
				return p
			}
			i--
		}
	}
	return -1
}

// vSharesStorage reports whether two lines share mutable storage: the same
// *Line, the same Tags map, or overlapping Args backing arrays. (Intercepted by
// the executor, which compares heap objects; this is the native equivalent.)
func vSharesStorage(a, b *Line) bool {
	if a == b {
		return true
	}
	if a.Tags != nil && b.Tags != nil && vMapID(a.Tags) == vMapID(b.Tags) {
		return true
	}
	if cap(a.Args) > 0 && cap(b.Args) > 0 {
		a0, b0 := vSliceBase(a.Args), vSliceBase(b.Args)
		sz := vStrSize
		if a0 < b0+uintptr(cap(b.Args))*sz && b0 < a0+uintptr(cap(a.Args))*sz {
			return true
		}
	}
	return false
}

// Lock-discipline monitor (executor only; no-ops natively): after vWatch(root,
// mu) every map reachable from root may be read only with mu held and written
// only with mu write-held, and every reachable object may be stored to only
// with mu write-held, while vWatchOn(true). Violations are logged as event
// "unguarded". vLockAcquires counts Lock/RLock calls on mu.
func vWatch(root interface{}, mu interface{}) {}
func vWatchOn(on bool)                        {}

// vPermuteIn: the executor explores every iteration order of map ranges inside the named function.
func vPermuteIn(fn string) {}
func vLockAcquires(mu interface{}) int {
	if c, ok := mu.(interface{ vAcquires() int }); ok {
		return c.vAcquires()
	}
	panic("vLockAcquires: native replay needs the counting mutex overlay")
}
func vLockHeld(mu interface{}) bool {
	if c, ok := mu.(interface{ vHeld() bool }); ok {
		return c.vHeld()
	}
	panic("vLockHeld: native replay needs the counting mutex overlay")
}

// Executor-only observers (neutral natively).
func vPendingGo() int                     { return -1 } // goroutines spawned and not yet run
func vDropPending()                       {}            // forget them (the harness is done with the connection)
func vEventStr(kind string, i int) string { return "" }

// vDialer is a proxy dialer for the harness-only URL scheme "vtest": it records
// the address it is asked to dial and hands out the in-memory wire (or fails).
type vDialer struct {
	addrs  []string
	wire   *vWire
	wires  []*vWire // if set: the n-th dial gets wires[n]
	fail   bool
	onDial func() // called after a successful dial (e.g. cancels the connect context)
}

func (d *vDialer) Dial(network, addr string) (net.Conn, error) {
	d.addrs = append(d.addrs, addr)
	if d.fail {
		return nil, errors.New("vDialer: refused")
	}
	if d.onDial != nil {
		d.onDial()
	}
	if n := len(d.addrs) - 1; n < len(d.wires) {
		return d.wires[n], nil
	}
	return d.wire, nil
}

var vTheDialer *vDialer

func vInstallDialer(d *vDialer) {
	vTheDialer = d
	proxy.RegisterDialerType("vtest", func(*url.URL, proxy.Dialer) (proxy.Dialer, error) { return vTheDialer, nil })
}

// vYield: a point at which the executor's scheduler may switch to another goroutine.
func vYield() { runtime.Gosched() }

// vYieldKinds selects which visible operations are preemption points in the executor.
func vYieldKinds(kinds string) {}

// vBlockedGo: number of goroutines the executor's scheduler holds blocked (-1 natively).
func vBlockedGo() int { return -1 }

// vPendingGoNamed: goroutines not yet finished whose function name contains the substring (-1 natively).
func vPendingGoNamed(sub string) int { return -1 }

// vWireBare: s contains a CR not followed by LF, or an LF not preceded by CR.
func vWireBare(s string) bool {
	for i := 0; i < len(s); i++ {
		if s[i] == '\r' && !(i+1 < len(s) && s[i+1] == '\n') {
			return true
		}
		if s[i] == '\n' && !(i > 0 && s[i-1] == '\r') {
			return true
		}
	}
	return false
}

// vWireTerminated: s ends in CRLF.
func vWireTerminated(s string) bool {
	return len(s) >= 2 && s[len(s)-2] == '\r' && s[len(s)-1] == '\n'
}

// vWireVerbs: every line of s (from the start, and after each LF) begins with verb followed by a space or CR.
func vWireVerbs(s, verb string) bool {
	for p := 0; p < len(s); p++ {
		if p > 0 && s[p-1] != '\n' {
			continue
		}
		if p+len(verb) >= len(s) || s[p:p+len(verb)] != verb {
			return false
		}
		if nx := s[p+len(verb)]; nx != ' ' && nx != '\r' {
			return false
		}
	}
	return true
}
