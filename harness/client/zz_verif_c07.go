//go:build verif

package client

import (
	"context"
	"sync"
	"time"
)

// VerifC07Teardown: a disconnect (user Close from another goroutine, server
// EOF, or cancellation of the connect context) while INB received lines are
// still unprocessed behind a long-running foreground handler and/or a handler
// is in the middle of emitting OUTB lines to a peer that has stopped reading.
// The disconnect must complete: Close returns, DISCONNECTED is delivered once,
// no goroutine of the connection is left behind. A state in which nothing can
// run any more is reported by the scheduler as a deadlock.
func VerifC07Teardown() {
	vSetOpt("schedExplore", 1)
	vSetOpt("maxSwitches", vParam("SW", 0))
	vSetOpt("deadlockIsViolation", 1)
	vYieldKinds("yield")
	inb, outb := vParam("INB", 3), vParam("OUTB", 0)
	stream := ":srv FIRST x\r\n"
	for i := 0; i < inb; i++ {
		switch i % 5 { // a mixed backlog: lines with built-in handlers that read / update the client's own state, or answer
		case 4:
			stream += "PING :p" + vItoa(i) + "\r\n"
		case 1:
			stream += ":srv 001 me :welcome\r\n"
		case 2:
			stream += ":me!i@h JOIN #c" + vItoa(i) + "\r\n"
		case 3:
			stream += ":me MODE me +i\r\n"
		default:
			stream += "EV " + vItoa(i) + "\r\n"
		}
	}
	w := vNewLiveWire(stream)
	w.writeGate = make(chan struct{}, outb+8)
	w.writeGate <- struct{}{} // NICK
	w.writeGate <- struct{}{} // USER; after that the peer stops reading
	d := &vDialer{wire: w}
	vInstallDialer(d)
	cfg := NewConfig("me")
	cfg.Server, cfg.Proxy, cfg.PingFreq = "srv:1", "vtest://p", 0
	cfg.Flood = true
	if inb+outb <= 8 && vParam("PINGS", 0) == 0 {
		cfg.Flood = vLen("flood", 0, 1) == 1 // flood control on only for small backlogs (its clock arithmetic is C10's subject)
	}
	if n := vParam("PINGS", 0); n > 0 {
		// keep-alive on, against a server that never answers: n ticks pass before the connection ends
		cfg.PingFreq = time.Second
		vSetOpt("tickerTicks", n)
	}
	conn := Client(cfg)
	if vLen("track", 0, 1) == 1 {
		conn.EnableStateTracking()
	}
	gate := make(chan struct{})
	var mu sync.Mutex
	disc, evs, closed := 0, 0, 0
	producer := vParam("PRODUCER", 0) // 0: the handler of FIRST emits the lines; 1: a user goroutine does
	conn.HandleFunc("FIRST", func(c *Conn, l *Line) {
		if producer == 0 {
			for i := 0; i < outb; i++ {
				c.Raw("PRIVMSG #c :" + vItoa(i))
			}
			if vParam("NOGATE", 0) == 0 {
				<-gate
			} // (NOGATE: the event loop works through the backlog - and answers its PINGs - while the peer is stalled)
		}
	})
	bgGo := make(chan struct{})
	conn.HandleBG("FIRST", HandlerFunc(func(c *Conn, l *Line) {
		// cause 3: a background handler decides to shut the connection down
		<-bgGo
		c.Close()
		mu.Lock()
		closed++
		mu.Unlock()
	}))
	conn.HandleFunc("EV", func(*Conn, *Line) { mu.Lock(); evs++; mu.Unlock() })
	conn.HandleFunc(DISCONNECTED, func(*Conn, *Line) { mu.Lock(); disc++; mu.Unlock() })
	ctx, cancel := context.WithCancel(context.Background())
	err := conn.ConnectContext(ctx)
	vAssert(err == nil, "connect-ok")
	if producer == 1 {
		go func() {
			for i := 0; i < outb; i++ {
				conn.Raw("PRIVMSG #c :" + vItoa(i))
			}
		}()
	}
	vRunPending() // the handler of FIRST is running (or blocked sending); the backlog piles up
	cause := vLen("cause", 0, 3)
	if cause == 3 {
		close(bgGo) // Close called from inside a background handler
	}
	switch cause {
	case 0: // user Close from another goroutine
		go func() { conn.Close(); mu.Lock(); closed++; mu.Unlock() }()
	case 1: // the server goes away
		w.Close()
	case 2: // the connect context is cancelled
		// (the peer stays stalled: nobody but the connection itself can notice the cancellation)
		cancel()
	}
	vRunPending()
	close(gate) // the long-running handler finishes
	vRunPending()
	mu.Lock()
	vAssert(disc == 1, "DISCONNECTED-delivered-once")
	vAssert(!conn.Connected(), "not-connected-afterwards")
	if cause == 0 || cause == 3 {
		vAssert(closed == 1, "Close-returned")
	}
	mu.Unlock()
	if cause != 3 {
		close(bgGo) // let the background handler finish (its Close is a no-op by now)
	}
	// none of the connection's own goroutines is left (a user goroutine that keeps sending after the
	// disconnect may well be stuck on the queue: sends issued after DISCONNECTED are outside the claim)
	if vPendingGoNamed("send") >= 0 {
		left := vPendingGoNamed("send") + vPendingGoNamed("recv") + vPendingGoNamed("runLoop") + vPendingGoNamed("ping")
		vAssert(left == 0, "monitor:no-goroutine-left-behind")
	}
	cancel()
	vReach("end")
}

// VerifC07Reconnect: after a disconnect the same client connects again - from
// inside the DISCONNECTED handler or from a goroutine it wakes - CYCLES times.
// Every new connection is fresh and unaffected by the teardown of the previous
// one: it stays up until something ends it, its registration reaches its own
// socket, the tracker holds just the client.
func VerifC07Reconnect() {
	vSetOpt("schedExplore", 1)
	vSetOpt("maxSwitches", vParam("SW", 1))
	vSetOpt("deadlockIsViolation", 1)
	vYieldKinds(vParamKinds())
	cycles := vParam("CYCLES", 2)
	var wires []*vWire
	for i := 0; i < cycles; i++ {
		wires = append(wires, vNewLiveWire(":srv 001 me :hi\r\n:me!i@h JOIN #c\r\n"))
	}
	d := &vDialer{wires: wires}
	vInstallDialer(d)
	cfg := NewConfig("me")
	cfg.Server, cfg.Proxy, cfg.PingFreq, cfg.Flood = "srv:1", "vtest://p", 0, true
	conn := Client(cfg)
	track := vLen("track", 0, 1) == 1
	if track {
		conn.EnableStateTracking()
	}
	fromHandler := vLen("reconnect-from-handler", 0, 1) == 1
	wake := make(chan struct{}, 4)
	var mu sync.Mutex
	disc, reg, reconnErr := 0, 0, 0
	conn.HandleFunc(REGISTER, func(*Conn, *Line) { mu.Lock(); reg++; mu.Unlock() })
	conn.HandleFunc(DISCONNECTED, func(c *Conn, l *Line) {
		mu.Lock()
		disc++
		again := disc < cycles
		mu.Unlock()
		if !again {
			return
		}
		if fromHandler {
			if c.Connect() != nil {
				mu.Lock()
				reconnErr++
				mu.Unlock()
			}
		} else {
			wake <- struct{}{}
		}
	})
	if !fromHandler {
		go func() {
			for i := 1; i < cycles; i++ {
				<-wake
				if conn.Connect() != nil {
					mu.Lock()
					reconnErr++
					mu.Unlock()
				}
			}
		}()
	}
	err := conn.Connect()
	vAssert(err == nil, "connect-ok")
	for gen := 0; gen < cycles; gen++ {
		vRunPending()
		mu.Lock()
		// D11 (known finding): a goroutine of the previous connection issues its trailing
		// Close() after the reconnect and tears the NEW connection down
		vAssert(!(disc > gen && reg >= gen+1), "old-teardown-disconnects-new-connection")
		vAssert(reconnErr == 0, "reconnect-succeeds")
		vAssert(reg == gen+1, "REGISTER-once-per-connection")
		vAssert(disc == gen, "DISCONNECTED-once-per-ended-connection")
		mu.Unlock()
		// the new connection is up and stays up although the old one's goroutines have all finished
		vAssert(conn.Connected(), "new-connection-stays-up")
		vAssert(wires[gen].closed == 0, "new-socket-not-closed-by-old-teardown")
		// (registration is sent concurrently with the event loop: with tracking on, the MODE / WHO
		// requests for the JOIN the new session brought may reach the socket first)
		nickAt, userAt := -1, -1
		for i, x := range wires[gen].written {
			if x == "NICK me\r\n" && nickAt < 0 {
				nickAt = i
			}
			if len(x) > 5 && x[:5] == "USER " && userAt < 0 {
				userAt = i
			}
		}
		vAssert(nickAt >= 0 && userAt > nickAt, "registration-reaches-the-new-socket")
		if track {
			vAssert(conn.st.GetChannel("#c") != nil, "tracker-follows-the-new-connection")
		}
		// end this connection
		if vLen("end"+vItoa(gen), 0, 1) == 0 {
			wires[gen].Close()
		} else {
			conn.Close()
		}
		if track && gen+1 < cycles {
			vRunPending()
			// after the reconnect the tracker was reset before the new JOIN arrived? it holds the client and what the new session brought
			vAssert(conn.st.Me() != nil && conn.st.Me().Nick == "me", "tracker-has-the-client")
		}
	}
	vRunPending()
	mu.Lock()
	vAssert(disc == cycles, "DISCONNECTED-once-per-ended-connection")
	vAssert(!conn.Connected(), "not-connected-at-the-end")
	mu.Unlock()
	if b := vBlockedGo(); b >= 0 {
		vAssert(b == 0, "monitor:no-goroutine-left-behind")
	}
	vReach("end")
}

// VerifC07Wipe: every connect resets the tracker to just the client itself.
func VerifC07Wipe() {
	conn := vNewConn(true)
	conn.st.NewChannel("#a")
	conn.st.Associate("#a", "me")
	conn.st.NewNick("x")
	conn.st.Associate("#a", "x")
	if vLen("second", 0, 1) == 1 {
		conn.st.NewChannel("#b")
		conn.st.Associate("#b", "me")
		conn.st.Associate("#b", "x")
	}
	d := &vDialer{wire: vNewLiveWire()}
	vInstallDialer(d)
	conn.cfg.Server, conn.cfg.Proxy, conn.cfg.PingFreq = "srv:1", "vtest://p", 0
	err := conn.Connect()
	vAssert(err == nil, "connect-ok")
	vAssert(conn.st.GetChannel("#a") == nil && conn.st.GetChannel("#b") == nil && conn.st.GetNick("x") == nil, "tracker-reset-on-connect")
	me := conn.st.Me()
	vAssert(me != nil && me.Nick == "me" && len(me.Channels) == 0 && conn.st.GetNick("me") != nil, "tracker-is-just-the-client")
	vAssert(conn.Config().Me != nil, "config-me-non-nil")
	vDropPending()
	vReach("end")
}
