//go:build verif

package client

import "github.com/fluffle/goirc/state"

// C13: the tracker follows a model IRC network. The pre-state is ANY network
// state over a small universe (the client + 2 users, 2 channels, membership,
// privileges, topics, details) with the tracker built directly as its view;
// one conformant server event is serialised to wire lines, pushed through the
// real ParseLine / dispatch / handlers / tracker, and the tracker must equal the
// view of the model's post-state.

const vMe = 0

func vNetName(name string) string {
	s := vStr(name, 1)
	b := s[0]
	vAssume(b < 0x80 && b != 0 && b != ' ' && b-9 >= 5 && b != ':' && b != '#' && b != '&' && b != '!' && b != '@' &&
		b != '~' && b != '%' && b != '+' && b != '*')
	return s
}

func vNetChan(name string) string {
	s := vStr(name, 1)
	b := s[0]
	vAssume(b < 0x80 && b != 0 && b != ' ' && b-9 >= 5 && b != ':' && b != ',')
	return "#" + s
}

// vGenNet draws a network state satisfying the tracker's conformant-session
// invariant: the client is on every tracked channel; every other tracked user
// shares at least one channel with it.
func vGenNet() *state.VModel {
	m := &state.VModel{}
	nu, nc := vParam("NU", 2), vParam("NC", 1)
	m.NOn[vMe], m.NName[vMe] = true, "me"
	m.NId[vMe], m.NHost[vMe], m.NReal[vMe] = "goirc", "", "Powered by GoIRC"
	for j := 0; j < state.VNC && j < nc; j++ {
		id := string([]byte{byte('0' + j)})
		if vLen("c"+id, 0, 1) == 1 {
			m.COn[j], m.CName[j] = true, vNetChan("chan"+id)
			m.CTop[j] = vStr("topic"+id, 1)
			m.CMode[j] = state.ChanMode{Moderated: vBool("cm" + id + "m"), Secret: vBool("cm" + id + "s"), Key: vStr("key"+id, vLen("keylen"+id, 0, 1)), Limit: vInt("limit" + id)}
			for p := 0; p < j; p++ {
				if m.COn[p] {
					vAssume(m.CName[p] != m.CName[j])
				}
			}
			m.Mem[vMe][j] = true
			m.Priv[vMe][j] = state.ChanPrivs{Op: vBool("mepriv" + id + "o"), Voice: vBool("mepriv" + id + "v")}
		}
	}
	for i := 1; i < state.VNN && i <= nu; i++ {
		id := string([]byte{byte('0' + i)})
		if vLen("u"+id, 0, 1) == 0 {
			continue
		}
		name := vNetName("user" + id)
		vAssume(name != "me")
		for p := 1; p < i; p++ {
			if m.NOn[p] {
				vAssume(m.NName[p] != name)
			}
		}
		on := 0
		for j := 0; j < state.VNC; j++ {
			if m.COn[j] && vLen("mem"+id+string([]byte{byte('0' + j)}), 0, 1) == 1 {
				m.Mem[i][j] = true
				m.Priv[i][j] = state.ChanPrivs{Owner: vBool("pv" + id + "q"), Op: vBool("pv" + id + "o"), HalfOp: vBool("pv" + id + "h"), Voice: vBool("pv" + id + "v")}
				on++
			}
		}
		vAssume(on > 0)
		m.NOn[i], m.NName[i] = true, name
		m.NId[i], m.NHost[i], m.NReal[i] = vStr("ident"+id, 1), vStr("host"+id, 1), vStr("real"+id, 1)
	}
	return m
}

func vFindNick(m *state.VModel, name string) int {
	for i := 0; i < state.VNN; i++ {
		if m.NOn[i] && m.NName[i] == name {
			return i
		}
	}
	return -1
}

func vFreeNick(m *state.VModel) int {
	for i := 1; i < state.VNN; i++ {
		if !m.NOn[i] {
			return i
		}
	}
	return -1
}

func vFreeChan(m *state.VModel) int {
	for j := 0; j < state.VNC; j++ {
		if !m.COn[j] {
			return j
		}
	}
	return -1
}

func vForget(m *state.VModel, i int) {
	m.NOn[i] = false
	m.NMode[i] = state.NickMode{}
	for j := 0; j < state.VNC; j++ {
		m.Mem[i][j] = false
	}
}

// vLeave: user i leaves channel j (PART / KICK); with garbage collection.
func vLeave(m *state.VModel, i, j int) {
	if i == vMe {
		m.COn[j] = false
		for k := 0; k < state.VNN; k++ {
			m.Mem[k][j] = false
		}
	} else {
		m.Mem[i][j] = false
	}
	for k := 1; k < state.VNN; k++ {
		if m.NOn[k] {
			n := 0
			for c := 0; c < state.VNC; c++ {
				if m.Mem[k][c] {
					n++
				}
			}
			if n == 0 {
				vForget(m, k)
			}
		}
	}
}

func vNewUser(m *state.VModel, i int, name, ident, host string) {
	m.NOn[i], m.NName[i], m.NId[i], m.NHost[i], m.NReal[i], m.NMode[i] = true, name, ident, host, "", state.NickMode{}
}

func vSrc(m *state.VModel, i int) string { return ":" + m.NName[i] + "!i@h " }

func vSetPriv(p *state.ChanPrivs, c byte, on bool) {
	switch c {
	case 'q':
		p.Owner = on
	case 'a':
		p.Admin = on
	case 'o':
		p.Op = on
	case 'h':
		p.HalfOp = on
	case 'v':
		p.Voice = on
	}
}

var vPrefixes = []string{"", "~", "&", "@", "%", "+"}
var vPrefixMode = []byte{0, 'q', 'a', 'o', 'h', 'v'}

// VerifC13Event: one conformant server event from any conformant network state.
func VerifC13Event() {
	m := vGenNet()
	conn := vNewConn(false)
	conn.st = state.VBuildTracker(m)
	conn.cfg.Me = conn.st.Me()
	conn.addSTHandlers()
	var lines, wantOut []string
	extra := []string{}
	ev := vLen("event", 0, 9)
	if only := vParam("EV", -1); only >= 0 {
		vAssume(ev == only)
	}
	switch ev {
	case 0: // the client joins a new channel; NAMES (+ topic, modes) follow
		j := vFreeChan(m)
		vAssume(j >= 0)
		c := vNetChan("newchan")
		for p := 0; p < state.VNC; p++ {
			if m.COn[p] {
				vAssume(m.CName[p] != c)
			}
		}
		lines = append(lines, ":me!i@h JOIN "+c)
		wantOut = append(wantOut, "MODE "+c, "WHO "+c)
		m.COn[j], m.CName[j], m.CTop[j], m.CMode[j] = true, c, "", state.ChanMode{}
		m.Mem[vMe][j], m.Priv[vMe][j] = true, state.ChanPrivs{}
		// NAMES: the client (possibly with a prefix: it created the channel), a known user, a new user
		names := ""
		mp := vLen("myprefix", 0, len(vPrefixes)-1)
		names += vPrefixes[mp] + "me"
		if mp > 0 {
			vSetPriv(&m.Priv[vMe][j], vPrefixMode[mp], true)
		}
		for i := 1; i < state.VNN; i++ {
			if m.NOn[i] && vLen("names-known"+string([]byte{byte('0' + i)}), 0, 1) == 1 {
				px := vLen("kprefix"+string([]byte{byte('0' + i)}), 0, len(vPrefixes)-1)
				names += " " + vPrefixes[px] + m.NName[i]
				m.Mem[i][j], m.Priv[i][j] = true, state.ChanPrivs{}
				if px > 0 {
					vSetPriv(&m.Priv[i][j], vPrefixMode[px], true)
				}
			}
		}
		if k := vFreeNick(m); k >= 0 && vLen("names-new", 0, 1) == 1 {
			nn := vNetName("newuser")
			vAssume(vFindNick(m, nn) < 0)
			px := vLen("nprefix", 0, len(vPrefixes)-1)
			names += " " + vPrefixes[px] + nn
			vNewUser(m, k, nn, "", "")
			m.Mem[k][j], m.Priv[k][j] = true, state.ChanPrivs{}
			if px > 0 {
				vSetPriv(&m.Priv[k][j], vPrefixMode[px], true)
			}
		}
		if vLen("trailing-space", 0, 1) == 1 {
			names += " "
		}
		lines = append(lines, ":srv 353 me = "+c+" :"+names)
		if vLen("withtopic", 0, 1) == 1 {
			t := vStr("jointopic", 1)
			vAssume(t[0] < 0x80 && t[0] != 0 && t[0] != '\r' && t[0] != '\n' && t[0]-9 >= 5)
			lines = append(lines, ":srv 332 me "+c+" :"+t)
			m.CTop[j] = t
		}
		if vLen("withmodes", 0, 1) == 1 {
			lines = append(lines, ":srv 324 me "+c+" +ms")
			m.CMode[j].Moderated, m.CMode[j].Secret = true, true
		}
	case 1: // another user joins one of the client's channels
		j := vLen("chan", 0, state.VNC-1)
		vAssume(m.COn[j])
		known := vLen("known", 0, 1) == 1
		if known {
			i := vLen("who", 1, state.VNN-1)
			vAssume(m.NOn[i] && !m.Mem[i][j])
			lines = append(lines, vSrc(m, i)+"JOIN "+m.CName[j])
			m.Mem[i][j], m.Priv[i][j] = true, state.ChanPrivs{}
		} else {
			k := vFreeNick(m)
			vAssume(k >= 0)
			nn := vNetName("joiner")
			vAssume(vFindNick(m, nn) < 0)
			lines = append(lines, ":"+nn+"!id@ho JOIN "+m.CName[j])
			wantOut = append(wantOut, "WHO "+nn)
			vNewUser(m, k, nn, "id", "ho")
			m.Mem[k][j], m.Priv[k][j] = true, state.ChanPrivs{}
		}
	case 2, 3: // PART / KICK of the client or of another user
		j := vLen("chan", 0, state.VNC-1)
		i := vLen("who", 0, state.VNN-1)
		vAssume(m.COn[j] && m.NOn[i] && m.Mem[i][j])
		if ev == 2 {
			l := vSrc(m, i) + "PART " + m.CName[j]
			if vLen("withmsg", 0, 1) == 1 {
				l += " :bye now"
			}
			lines = append(lines, l)
		} else {
			by := vLen("by", 0, state.VNN-1)
			vAssume(m.NOn[by] && m.Mem[by][j])
			l := vSrc(m, by) + "KICK " + m.CName[j] + " " + m.NName[i]
			switch vLen("withmsg", 0, 2) { // the comment is optional (RFC 1459 4.2.8), and may be empty
			case 1:
				l += " :out"
			case 2:
				l += " :"
			}
			lines = append(lines, l)
		}
		extra = append(extra, m.NName[i], m.CName[j])
		vLeave(m, i, j)
	case 4: // another user quits
		i := vLen("who", 1, state.VNN-1)
		vAssume(m.NOn[i])
		if vLen("withmsg", 0, 1) == 1 {
			lines = append(lines, vSrc(m, i)+"QUIT :gone")
		} else {
			lines = append(lines, vSrc(m, i)+"QUIT")
		}
		extra = append(extra, m.NName[i])
		vForget(m, i)
	case 5: // nick change of the client or another user
		i := vLen("who", 0, state.VNN-1)
		vAssume(m.NOn[i])
		nn := vNetName("newnick")
		vAssume(vFindNick(m, nn) < 0)
		lines = append(lines, vSrc(m, i)+"NICK "+nn)
		extra = append(extra, m.NName[i])
		m.NName[i] = nn
	case 6: // channel MODE: a flag, key, limit and a privilege for a member
		j := vLen("chan", 0, state.VNC-1)
		i := vLen("who", 0, state.VNN-1)
		vAssume(m.COn[j] && m.NOn[i] && m.Mem[i][j])
		give := vLen("give", 0, 1) == 1
		pm := []byte{'q', 'a', 'o', 'h', 'v'}[vLen("privmode", 0, 4)]
		sign := "-"
		if give {
			sign = "+"
		}
		switch vLen("modekind", 0, 4) {
		case 4: // two privilege changes with two arguments in one line
			i2 := vLen("who2", 0, state.VNN-1)
			vAssume(m.NOn[i2] && m.Mem[i2][j] && i2 != i)
			pm2 := []byte{'o', 'v', 'h'}[vLen("privmode2", 0, 2)]
			lines = append(lines, ":srv MODE "+m.CName[j]+" "+sign+string([]byte{pm, pm2})+" "+m.NName[i]+" "+m.NName[i2])
			vSetPriv(&m.Priv[i][j], pm, give)
			vSetPriv(&m.Priv[i2][j], pm2, give)
		case 0:
			lines = append(lines, ":srv MODE "+m.CName[j]+" "+sign+string([]byte{pm})+" "+m.NName[i])
			vSetPriv(&m.Priv[i][j], pm, give)
		case 1:
			lines = append(lines, ":srv MODE "+m.CName[j]+" "+sign+"m"+string([]byte{pm})+"i "+m.NName[i])
			vSetPriv(&m.Priv[i][j], pm, give)
			m.CMode[j].Moderated, m.CMode[j].InviteOnly = give, give
		case 2:
			k := vStr("newkey", 1)
			vAssume(k[0] < 0x80 && k[0] != 0 && k[0] != ' ' && k[0]-9 >= 5 && k[0] != ':')
			lines = append(lines, ":srv MODE "+m.CName[j]+" +kl "+k+" 25")
			m.CMode[j].Key, m.CMode[j].Limit = k, 25
		case 3:
			lines = append(lines, ":srv MODE "+m.CName[j]+" -l")
			m.CMode[j].Limit = 0
		}
	case 7: // TOPIC
		j := vLen("chan", 0, state.VNC-1)
		vAssume(m.COn[j])
		t := vStr("newtopic", vLen("newtopiclen", 0, 2))
		for k := 0; k < len(t); k++ {
			vAssume(t[k] < 0x80 && t[k] != 0 && t[k] != '\r' && t[k] != '\n' && (t[k] == ' ' || t[k]-9 >= 5))
		}
		lines = append(lines, vSrc(m, vMe)+"TOPIC "+m.CName[j]+" :"+t)
		m.CTop[j] = t
	case 8: // WHO reply (352) for another user
		i := vLen("who", 1, state.VNN-1)
		j := vLen("chan", 0, state.VNC-1)
		vAssume(m.NOn[i] && m.COn[j] && m.Mem[i][j])
		id, ho, re := vNetName("whoident"), vNetName("whohost"), vNetName("whoreal")
		lines = append(lines, ":srv 352 me "+m.CName[j]+" "+id+" "+ho+" irc.srv "+m.NName[i]+" H :0 "+re)
		m.NId[i], m.NHost[i], m.NReal[i] = id, ho, re
		m.NMode[i].Invisible = true // outside the claim (user modes inferred from WHO flags); mirrors the code
	case 9: // the client's own user MODE
		lines = append(lines, ":me MODE me +i")
		m.NMode[vMe].Invisible = true
	}
	var gotOut []string
	for _, raw := range lines {
		l := ParseLine(raw)
		vAssert(l != nil, "event-line-parses")
		if l == nil {
			return
		}
		conn.dispatch(l)
		vRunPending()
		gotOut = append(gotOut, vDrain(conn)...)
	}
	vAssert(len(gotOut) == len(wantOut), "requests-count")
	if len(gotOut) == len(wantOut) {
		for i := range wantOut {
			vAssert(gotOut[i] == wantOut[i], "requests-issued")
		}
	}
	state.VCheck(conn.st, m, extra)
	vReach("end")
}

// VerifC13Arbitrary: from any conformant state, one ARBITRARY line of a handled
// verb keeps the tracker sane: the client is tracked, every tracked channel has
// the client in it, every other tracked user shares a channel with it.
func VerifC13Arbitrary() {
	m := vGenNet()
	conn := vNewConn(false)
	conn.st = state.VBuildTracker(m)
	conn.cfg.Me = conn.st.Me()
	conn.addSTHandlers()
	verbs := []string{"JOIN", "KICK", "MODE", "NICK", "PART", "QUIT", "TOPIC", "311", "324", "332", "352", "353", "671", "001", "433"}
	verb := verbs[vLen("verb", 0, len(verbs)-1)]
	// source and arguments are names of the universe or arbitrary one-byte strings
	pool := []string{"me", "x", "", "+o", "-k"}
	for i := 1; i < state.VNN; i++ {
		if m.NOn[i] {
			pool = append(pool, m.NName[i])
		}
	}
	for j := 0; j < state.VNC; j++ {
		if m.COn[j] {
			pool = append(pool, m.CName[j])
		}
	}
	var picked []string
	pick := func(name string) string {
		k := vLen(name, 0, len(pool))
		if k == len(pool) {
			s := vStr(name+"sym", 1)
			vAssume(s[0] < 0x80 && s[0] != 0 && s[0] != ' ' && s[0]-9 >= 5 && s[0] != ':')
			picked = append(picked, s)
			return s
		}
		return pool[k]
	}
	raw := ""
	if src := pick("src"); src != "" && src != "+o" && src != "-k" {
		raw = ":" + src + "!i@h "
	}
	raw += verb
	na := vLen("nargs", 0, vParam("NA", 3))
	for k := 0; k < na; k++ {
		a := pick("arg" + string([]byte{byte('0' + k)}))
		if a == "" {
			raw += " :"
			break
		}
		raw += " " + a
	}
	l := ParseLine(raw)
	vAssume(l != nil)
	conn.dispatch(l)
	vRunPending()
	vDrain(conn)
	st := conn.st
	me := st.Me()
	vAssert(me != nil && st.GetNick(me.Nick) != nil, "client-still-tracked")
	// every name that could be tracked now: the pool plus the client's current nick
	names := append(append([]string{me.Nick}, pool...), picked...)
	for _, c := range names {
		ch := st.GetChannel(c)
		if ch != nil {
			_, on := ch.Nicks[me.Nick]
			vAssert(on, "no-channel-without-the-client")
		}
	}
	for _, n := range names {
		nk := st.GetNick(n)
		if nk != nil && n != me.Nick {
			vAssert(len(nk.Channels) > 0, "no-user-without-shared-channel")
		}
	}
	vReach("end")
}

// VerifC13Truncated: the server hangs up in the middle of a line. What arrived of that
// line is not a message the server sent: after the disconnect the tracker still holds the
// state the complete lines produced - the user is not renamed to a prefix of its new nick,
// the topic is not a prefix of the new topic. Real Connect / recv / runLoop / Close with
// the tracker on; the cut position is symbolic; schedules within the delay bound (so that
// the event loop may take a queued line before the reader goes on to see the EOF).
func VerifC13Truncated() {
	vSetOpt("schedExplore", 1)
	vSetOpt("maxSwitches", vParam("SW", 1))
	vYieldKinds("yield chan")
	cfg := NewConfig("me")
	cfg.Server, cfg.Proxy, cfg.PingFreq, cfg.Flood = "srv:1", "vtest://p", 0, true
	w := vNewLiveWire(":me!i@h JOIN #c\r\n:srv 353 me = #c :me @nn\r\n:srv 366 me #c :End\r\n")
	vInstallDialer(&vDialer{wire: w})
	conn := Client(cfg)
	conn.EnableStateTracking()
	err := conn.Connect()
	vAssume(err == nil)
	vRunPending()
	full := []string{":nn!u@h NICK :nn234", ":nn!u@h TOPIC #c :new topic", ":nn!u@h NICK nn234"}[vLen("which", 0, 2)]
	cut := vLen("cut", 1, len(full)-1)
	w.feedEOF(full[:cut])
	vRunPending()
	st := conn.StateTracker()
	ch := st.GetChannel("#c")
	vAssert(!conn.Connected(), "truncated:disconnected")
	if ch != nil { // (the tracker is wiped only by the next Connect)
		vAssert(ch.Topic == "", "truncated:fragment-not-applied")
		_, on := ch.Nicks["nn"]
		vAssert(on && st.GetNick("nn") != nil, "truncated:fragment-not-applied")
		vAssert(len(ch.Nicks) == 2, "truncated:fragment-not-applied")
	}
	vReach("end")
}
