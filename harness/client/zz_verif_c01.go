//go:build verif

package client

import "strings"

// C01: serializer-first round trip. Components are symbolic; the reference
// serializer below builds the wire text; the real ParseLine must give back
// exactly the components.

// vUp is the reference upper-casing of one ASCII byte (no branch on data).
func vUp(b byte) byte {
	d := byte(0)
	if b-'a' < 26 {
		d = 32
	}
	return b - d
}

func vUpStr(s string) string {
	out := make([]byte, len(s))
	for i := 0; i < len(s); i++ {
		out[i] = vUp(s[i])
	}
	return string(out)
}

func vIsAlnum(b byte) bool {
	return (b|0x20)-'a' < 26 || b-'0' < 10
}

func vIsLetter(b byte) bool { return (b|0x20)-'a' < 26 }

// vNoWS: not NUL and not ASCII white space (\t \n \v \f \r space).
func vNoWS(b byte) bool { return b != 0 && b != ' ' && b-9 >= 5 }

// vEscapeTag is the IRCv3 escaping of a tag value.
func vEscapeTag(v string) string {
	out := ""
	for i := 0; i < len(v); i++ {
		switch v[i] {
		case ';':
			out += "\\:"
		case ' ':
			out += "\\s"
		case '\\':
			out += "\\\\"
		case '\r':
			out += "\\r"
		case '\n':
			out += "\\n"
		default:
			out += string([]byte{v[i]})
		}
	}
	return out
}

type vMsg struct {
	hasTags  bool
	keys     []string
	vals     []string
	hasVal   []bool
	src      int // 0 none, 1 server, 2 nick!user@host
	server   string
	nick     string
	user     string
	host     string
	verb     string
	middles  []string
	gaps     []int // spaces before each middle
	hasTrail bool
	trailGap int
	trail    string
}

func (m *vMsg) wire() string {
	s := ""
	if m.hasTags {
		s += "@"
		for i := range m.keys {
			if i > 0 {
				s += ";"
			}
			s += m.keys[i]
			if m.hasVal[i] {
				s += "=" + vEscapeTag(m.vals[i])
			}
		}
		s += " "
	}
	switch m.src {
	case 1:
		s += ":" + m.server + " "
	case 2:
		s += ":" + m.nick + "!" + m.user + "@" + m.host + " "
	}
	s += m.verb
	for i := range m.middles {
		for k := 0; k < m.gaps[i]; k++ {
			s += " "
		}
		s += m.middles[i]
	}
	if m.hasTrail {
		for k := 0; k < m.trailGap; k++ {
			s += " "
		}
		s += ":" + m.trail
	}
	return s
}

// vGenPrefix draws the tag section and the source.
func vGenPrefix(m *vMsg) {
	nt := vLen("ntags", 0, vParam("T", 1))
	if nt > 0 {
		m.hasTags = true
		for i := 0; i < nt; i++ {
			id := string([]byte{byte('0' + i)})
			k := vStr("key"+id, vLen("keylen"+id, 1, vParam("KL", 2)))
			for j := 0; j < len(k); j++ {
				b := k[j]
				vAssume((b|0x20)-'a' < 26 || b-'0' < 10 || b == '-' || b == '/' || b == '.')
			}
			hv := vLen("hasval"+id, 0, 1) == 1
			v := ""
			if hv {
				v = vStr("val"+id, vLen("vallen"+id, 0, vParam("VL", 2)))
				for j := 0; j < len(v); j++ {
					vAssume(v[j] != 0 && v[j] < 0x80)
				}
			}
			for p := 0; p < i; p++ {
				vAssume(m.keys[p] != k)
			}
			m.keys = append(m.keys, k)
			m.vals = append(m.vals, v)
			m.hasVal = append(m.hasVal, hv)
		}
	}
	m.src = vLen("src", 0, 2)
	sl := vParam("SL", 2)
	switch m.src {
	case 1:
		m.server = vStr("server", vLen("serverlen", 1, sl))
		for j := 0; j < len(m.server); j++ {
			b := m.server[j]
			vAssume(b < 0x80 && b != 0 && b != ' ' && b-9 >= 5 && b != '!' && b != '@')
		}
	case 2:
		m.nick = vStr("nick", vLen("nicklen", 1, sl))
		m.user = vStr("user", vLen("userlen", 1, sl))
		m.host = vStr("host", vLen("hostlen", 1, sl))
		for j := 0; j < len(m.nick); j++ {
			b := m.nick[j]
			vAssume(b < 0x80 && b != 0 && b != ' ' && b-9 >= 5 && b != '!' && b != '@')
		}
		for j := 0; j < len(m.user); j++ {
			b := m.user[j]
			vAssume(b < 0x80 && b != 0 && b != ' ' && b-9 >= 5 && b != '@')
		}
		for j := 0; j < len(m.host); j++ {
			b := m.host[j]
			vAssume(b < 0x80 && b != 0 && b != ' ' && b-9 >= 5 && b != '@' && b != '!')
		}
	}
}

func vGenMiddle(name string, maxLen int) string {
	p := vStr(name, vLen(name+"len", 1, maxLen))
	for j := 0; j < len(p); j++ {
		b := p[j]
		vAssume(b < 0x80 && b != 0 && b != ' ' && b-9 >= 5)
	}
	vAssume(p[0] != ':')
	return p
}

func vGenTrail(m *vMsg, maxLen int) {
	m.hasTrail = vLen("hastrail", 0, 1) == 1
	if m.hasTrail {
		m.trailGap = vLen("trailgap", 1, 2)
		m.trail = vStr("trail", vLen("traillen", 0, maxLen))
		for j := 0; j < len(m.trail); j++ {
			b := m.trail[j]
			vAssume(b < 0x80 && b != 0 && b-9 >= 5)
		}
	}
}

func vCheckPrefix(m *vMsg, l *Line, w string) {
	vAssert(l != nil, "parsed")
	if l == nil {
		return
	}
	vAssert(l.Raw == w, "raw")
	if !m.hasTags {
		vAssert(l.Tags == nil, "tags-nil")
	} else {
		vAssert(l.Tags != nil, "tags-nonnil")
		vAssert(len(l.Tags) == len(m.keys), "tags-count")
		for i := range m.keys {
			v, ok := l.Tags[m.keys[i]]
			vAssert(ok, "tag-present")
			vAssert(v == m.vals[i], "tag-value")
		}
	}
	switch m.src {
	case 0:
		vAssert(l.Src == "" && l.Nick == "" && l.Ident == "" && l.Host == "", "src-none")
	case 1:
		vAssert(l.Src == m.server && l.Host == m.server && l.Nick == "" && l.Ident == "", "src-server")
	case 2:
		vAssert(l.Src == m.nick+"!"+m.user+"@"+m.host, "src-full")
		vAssert(l.Nick == m.nick, "src-nick")
		vAssert(l.Ident == m.user, "src-ident")
		vAssert(l.Host == m.host, "src-host")
	}
}

func vIsChan(s string) bool {
	if len(s) == 0 {
		return false
	}
	return s[0] == '#' || s[0] == '&' || s[0] == '+' || s[0] == '!'
}

// vCheckAccessors: Text/Target/Public against their documented definitions.
func vCheckAccessors(l *Line) {
	text := ""
	if len(l.Args) > 0 {
		text = l.Args[len(l.Args)-1]
	}
	vAssert(l.Text() == text, "text")
	pub := false
	tgt := ""
	if len(l.Args) > 0 {
		tgt = l.Args[0]
	}
	switch l.Cmd {
	case PRIVMSG, NOTICE, ACTION:
		pub = len(l.Args) > 0 && vIsChan(l.Args[0])
		if !pub {
			tgt = l.Nick
		}
	case CTCP, CTCPREPLY:
		pub = len(l.Args) > 1 && vIsChan(l.Args[1])
		if !pub {
			tgt = l.Nick
		} else {
			tgt = l.Args[1]
		}
	}
	vAssert(l.Public() == pub, "public")
	vAssert(l.Target() == tgt, "target")
}

// VerifC01Plain: ordinary messages (no CTCP payload).
func VerifC01Plain() {
	m := &vMsg{}
	vGenPrefix(m)
	if vLen("verbkind", 0, 1) == 0 {
		m.verb = vStr("verb", vLen("verblen", 1, vParam("VBL", 3)))
		for j := 0; j < len(m.verb); j++ {
			vAssume((m.verb[j]|0x20)-'a' < 26)
		}
	} else {
		m.verb = vStr("num", 3)
		for j := 0; j < 3; j++ {
			vAssume(m.verb[j]-'0' < 10)
		}
	}
	nm := vLen("nmid", 0, vParam("M", 2))
	if vParam("M14", 0) == 1 {
		nm = 13 + vLen("nmid14", 0, 1) // 13 or 14 middle parameters (RFC 2812 allows 14 + trailing)
	}
	for i := 0; i < nm; i++ {
		id := string([]byte{byte('a' + i)})
		if nm > 4 {
			// many parameters: one symbolic byte each, single spaces except before the first two
			m.middles = append(m.middles, vGenMiddle("mid"+id, 1))
			g := 1
			if i < 2 {
				g = vLen("gap"+id, 1, 2)
			}
			m.gaps = append(m.gaps, g)
			continue
		}
		m.middles = append(m.middles, vGenMiddle("mid"+id, vParam("ML", 2)))
		m.gaps = append(m.gaps, vLen("gap"+id, 1, 2))
	}
	vGenTrail(m, vParam("TL", 3))
	w := m.wire()
	l := ParseLine(w)
	vCheckPrefix(m, l, w)
	if l == nil {
		return
	}
	cmd := vUpStr(m.verb)
	want := append([]string{}, m.middles...)
	if m.hasTrail {
		want = append(want, m.trail)
	}
	// a plain PRIVMSG/NOTICE whose trailing looks like CTCP is the other harness's subject
	if (cmd == PRIVMSG || cmd == NOTICE) && len(want) > 1 && len(want[1]) > 2 &&
		want[1][0] == 1 && want[1][len(want[1])-1] == 1 {
		return
	}
	vObserve("cmd", l.Cmd)
	vObserve("args", strings.Join(l.Args, "\x00"))
	vObserve("text-target", l.Text()+"\x00"+l.Target())
	vAssert(l.Cmd == cmd, "cmd")
	vAssert(len(l.Args) == len(want), "args-count")
	if len(l.Args) == len(want) {
		for i := range want {
			vAssert(l.Args[i] == want[i], "arg")
		}
	}
	vCheckAccessors(l)
	vReach("end")
}

// VerifC01Ctcp: PRIVMSG/NOTICE target :\x01VERB text\x01
func VerifC01Ctcp() {
	m := &vMsg{}
	vGenPrefix(m)
	notice := vLen("notice", 0, 1) == 1
	base := "PRIVMSG"
	if notice {
		base = "NOTICE"
	}
	// verb in any letter case
	vb := vStr("verbcase", len(base))
	for j := 0; j < len(base); j++ {
		vAssume(vb[j] == base[j] || vb[j] == base[j]+32)
	}
	m.verb = vb
	m.middles = []string{vGenMiddle("target", vParam("ML", 2))}
	m.gaps = []int{vLen("gap", 1, 2)}
	m.hasTrail = true
	m.trailGap = vLen("trailgap", 1, 2)
	var cv string
	if vLen("isaction", 0, 1) == 1 {
		cv = vStr("action", 6)
		for j := 0; j < 6; j++ {
			vAssume(cv[j] == "ACTION"[j] || cv[j] == "action"[j])
		}
	} else {
		cv = vStr("ctcpverb", vLen("ctcpverblen", 1, vParam("CL", 2)))
		for j := 0; j < len(cv); j++ {
			b := cv[j]
			vAssume(b < 0x80 && b != 0 && b != ' ' && b-9 >= 5 && b != 1)
		}
	}
	text := vStr("text", vLen("textlen", 1, vParam("TL", 3)))
	for j := 0; j < len(text); j++ {
		b := text[j]
		vAssume(b < 0x80 && b != 0 && b-9 >= 5 && b != 1)
	}
	m.trail = "\001" + cv + " " + text + "\001"
	w := m.wire()
	l := ParseLine(w)
	vCheckPrefix(m, l, w)
	if l == nil {
		return
	}
	ucv := vUpStr(cv)
	if ucv == "ACTION" && !notice {
		vAssert(l.Cmd == ACTION, "action-cmd")
		vAssert(len(l.Args) == 2 && l.Args[0] == m.middles[0] && l.Args[1] == text, "action-args")
	} else {
		if notice {
			vAssert(l.Cmd == CTCPREPLY, "ctcpreply-cmd")
		} else {
			vAssert(l.Cmd == CTCP, "ctcp-cmd")
		}
		vAssert(len(l.Args) == 3 && l.Args[0] == ucv && l.Args[1] == m.middles[0] && l.Args[2] == text, "ctcp-args")
	}
	vCheckAccessors(l)
	vReach("end")
}

func vSameLine(a, b *Line) bool {
	if a == nil || b == nil {
		return a == b
	}
	if a.Nick != b.Nick || a.Ident != b.Ident || a.Host != b.Host || a.Src != b.Src || a.Cmd != b.Cmd || a.Raw != b.Raw {
		return false
	}
	if len(a.Args) != len(b.Args) || (a.Tags == nil) != (b.Tags == nil) || len(a.Tags) != len(b.Tags) {
		return false
	}
	for i := range a.Args {
		if a.Args[i] != b.Args[i] {
			return false
		}
	}
	for k, v := range a.Tags {
		if bv, ok := b.Tags[k]; !ok || bv != v {
			return false
		}
	}
	return true
}

// VerifC01Deliver: a well-formed message arriving over a connection (real recv
// loop over the bufio model, real dispatch) reaches a handler registered for
// its verb as a line equal to what ParseLine gives for the text; a second
// line behind it is delivered as well. LONG=1 puts a 4200-byte tag value in
// front (longer than bufio's buffer).
func VerifC01Deliver() {
	m := &vMsg{}
	long := vParam("LONG", 0) == 1
	if long {
		filler := make([]byte, 4200)
		for i := range filler {
			filler[i] = 'a'
		}
		m.hasTags = true
		m.keys, m.vals, m.hasVal = []string{"k"}, []string{string(filler)}, []bool{true}
		m.src = 2
		m.nick, m.user, m.host = "n", "u", "h"
	} else {
		vGenPrefix(m)
	}
	m.verb = vStr("verb", vLen("verblen", 1, vParam("VBL", 2)))
	for j := 0; j < len(m.verb); j++ {
		vAssume((m.verb[j]|0x20)-'a' < 26)
	}
	m.middles = []string{vGenMiddle("mid", 2)}
	m.gaps = []int{1}
	vGenTrail(m, vParam("TL", 2))
	w := m.wire()
	want := ParseLine(w)
	vAssume(want != nil)
	conn := vNewConn(false)
	var got []*Line
	conn.HandleFunc(want.Cmd, func(c *Conn, l *Line) { got = append(got, l) })
	var second []*Line
	conn.HandleFunc("ZZ", func(c *Conn, l *Line) { second = append(second, l) })
	wire := vNewWire(w + "\r\nZZ x\r\n")
	conn.sock = wire
	conn.postConnect(nil, false)
	conn.wg.Add(1)
	conn.recv()
	for {
		var l *Line
		select {
		case l = <-conn.in:
		default:
		}
		if l == nil {
			break
		}
		conn.dispatch(l)
		vRunPending()
	}
	if want.Cmd == "ZZ" {
		return
	}
	vAssert(len(got) == 1, "delivered-once")
	if len(got) == 1 {
		vAssert(vSameLine(got[0], want), "delivered-equal")
	}
	vAssert(len(second) == 1 && second[0].Cmd == "ZZ" && len(second[0].Args) == 1 && second[0].Args[0] == "x", "next-line-delivered")
	vReach("end")
}
