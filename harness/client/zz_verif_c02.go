//go:build verif

package client

import "strings"

// C02 (a): no byte string makes ParseLine or the accessors panic.
func VerifC02Parse() {
	n := vLen("n", 0, vParam("L", 6))
	s := vStr("s", n)
	vASCII(s)
	l := ParseLine(s)
	if l != nil {
		_ = l.Text()
		_ = l.Target()
		_ = l.Public()
		vObserve("cmd", l.Cmd)
		vObserve("src", l.Nick+"!"+l.Ident+"@"+l.Host)
		vObserve("args", strings.Join(l.Args, "\x00"))
		vObserve("target", l.Target())
	} else {
		vObserve("nil", "")
	}
	vReach("end")
}

var vC02Prefixes = []string{
	"PRIVMSG ", "NOTICE ", ":n!u@h PRIVMSG ", "@t=v :n!u@h NOTICE ", "CTCP ", "ACTION ", "CTCPREPLY ",
	"PRIVMSG #c :\001", "NOTICE n :\001", "PRIVMSG", "NOTICE",
}

// C02 (a'): the same after every prefix that spells a verb the parser and the
// accessors treat specially (a fully symbolic short string cannot spell them).
func VerifC02Prefixed() {
	p := vLen("p", 0, len(vC02Prefixes)-1)
	n := vLen("n", 0, vParam("L", 4))
	s := vC02Prefixes[p] + vStr("s", n)
	vASCII(s)
	l := ParseLine(s)
	if l != nil {
		_ = l.Text()
		_ = l.Target()
		_ = l.Public()
	}
	vReach("end")
}

var vC02Verbs = []string{
	"001", "433", "CTCP", "NICK", "PING", "CAP", "410", "AUTHENTICATE", "903", "904", "908",
	"JOIN", "KICK", "MODE", "PART", "QUIT", "TOPIC", "311", "324", "332", "352", "353", "671",
	"PRIVMSG", "NOTICE",
}

func vNewConn(track bool) *Conn {
	conn := Client(NewConfig("me"))
	conn.out = make(chan string, 128)
	conn.in = make(chan *Line, 16)
	if track {
		conn.EnableStateTracking()
	}
	return conn
}

// C02 (b): every built-in handler, with too few / empty / odd parameters, with
// and without state tracking (the real tracker underneath): no panic escapes
// the dispatcher (panics inside a handler are caught by the configured Recover).
func VerifC02Handlers() {
	track := vLen("track", 0, 1) == 1
	conn := vNewConn(track)
	if track {
		// a little state so that handlers find a channel and a nick
		conn.st.NewChannel("#c")
		conn.st.Associate("#c", "me")
		conn.st.NewNick("n")
		conn.st.Associate("#c", "n")
	}
	v := vLen("verb", 0, len(vC02Verbs)-1)
	src := ""
	if vLen("hassrc", 0, 1) == 1 {
		src = ":n!u@h "
	}
	rest := vStr("rest", vLen("restlen", 0, vParam("L", 4)))
	vASCII(rest)
	s := src + vC02Verbs[v] + rest
	l := ParseLine(s)
	if l != nil {
		conn.dispatch(l)
		vRunPending()
	}
	_ = vDrain(conn)
	vReach("end")
}

// C02 (c): whatever bytes precede it, a well-formed line that follows is still
// read, parsed and queued by the real recv loop; nothing panics. The byte stream
// is delivered in one or two reads with a symbolic cut.
func VerifC02Recv() {
	conn := vNewConn(false)
	junk := vStr("junk", vLen("junklen", 0, vParam("L", 4)))
	vASCII(junk)
	stream := junk + "\n" + "PRIVMSG #c :hi\r\n"
	cut := vLen("cut", 0, len(junk)+2)
	var w *vWire
	if cut == 0 {
		w = vNewWire(stream)
	} else {
		w = vNewWire(stream[:cut], stream[cut:])
	}
	conn.sock = w
	conn.postConnect(nil, false)
	conn.wg.Add(1)
	conn.recv()
	var last *Line
	n := 0
	for {
		var l *Line
		select {
		case l = <-conn.in:
		default:
		}
		if l == nil {
			break
		}
		last = l
		n++
	}
	vAssert(n >= 1, "something-queued")
	if last != nil {
		vAssert(last.Cmd == "PRIVMSG" && len(last.Args) == 2 && last.Args[0] == "#c" && last.Args[1] == "hi", "later-line-processed")
		vAssert(last.Raw == "PRIVMSG #c :hi", "later-line-raw")
	}
	vReach("end")
}
