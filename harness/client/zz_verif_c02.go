//go:build verif

package client

// C02 (a): no byte string makes ParseLine or the accessors panic.
func VerifC02Parse() {
	n := vLen("n", 0, vParam("L", 6))
	s := vStr("s", n)
	vASCII(s)
	l := ParseLine(s)
	if l != nil {
		_ = l.Text()
		_ = l.Target()
		_ = l.Public()
	}
	vReach("end")
}

var vC02Prefixes = []string{
	"PRIVMSG ", "NOTICE ", ":n!u@h PRIVMSG ", "@t=v :n!u@h NOTICE ", "CTCP ", "ACTION ", "CTCPREPLY ",
	"PRIVMSG #c :\001", "NOTICE n :\001", "PRIVMSG", "NOTICE",
}

// C02 (a'): the same after every prefix that spells a verb the parser and the
// accessors treat specially (a fully symbolic short string cannot spell them).
func VerifC02Prefixed() {
	p := vLen("p", 0, len(vC02Prefixes)-1)
	n := vLen("n", 0, vParam("L", 4))
	s := vC02Prefixes[p] + vStr("s", n)
	vASCII(s)
	l := ParseLine(s)
	if l != nil {
		_ = l.Text()
		_ = l.Target()
		_ = l.Public()
	}
	vReach("end")
}
