//go:build verif

package client

import (
	"sort"
	"strings"
)

// C02 (a): no byte string makes ParseLine or the accessors panic.
func VerifC02Parse() {
	n := vLen("n", 0, vParam("L", 6))
	s := vStr("s", n)
	vASCII(s)
	l := ParseLine(s)
	if l != nil {
		_ = l.Text()
		_ = l.Target()
		_ = l.Public()
		vObserve("cmd", l.Cmd)
		vObserve("src", l.Nick+"!"+l.Ident+"@"+l.Host)
		vObserve("args", strings.Join(l.Args, "\x00"))
		vObserve("target", l.Target())
	} else {
		vObserve("nil", "")
	}
	vReach("end")
}

var vC02Prefixes = []string{
	"PRIVMSG ", "NOTICE ", ":n!u@h PRIVMSG ", "@t=v :n!u@h NOTICE ", "CTCP ", "ACTION ", "CTCPREPLY ",
	"PRIVMSG #c :\001", "NOTICE n :\001", "PRIVMSG", "NOTICE",
}

// C02 (a'): the same after every prefix that spells a verb the parser and the
// accessors treat specially (a fully symbolic short string cannot spell them).
func VerifC02Prefixed() {
	p := vLen("p", 0, len(vC02Prefixes)-1)
	n := vLen("n", 0, vParam("L", 4))
	s := vC02Prefixes[p] + vStr("s", n)
	vASCII(s)
	l := ParseLine(s)
	if l != nil {
		_ = l.Text()
		_ = l.Target()
		_ = l.Public()
	}
	vReach("end")
}

// vC02Verbs: every verb that has a built-in handler in the CURRENT source (read
// from the real handler tables, so an added handler is covered) plus the two
// verbs the parser rewrites.
func vC02Verbs() []string {
	seen := map[string]bool{"PRIVMSG": true, "NOTICE": true}
	verbs := []string{"PRIVMSG", "NOTICE"}
	for v := range intHandlers {
		if !seen[v] && v != REGISTER {
			seen[v] = true
			verbs = append(verbs, v)
		}
	}
	for v := range stHandlers {
		if !seen[v] {
			seen[v] = true
			verbs = append(verbs, v)
		}
	}
	sort.Strings(verbs)
	return verbs
}

func vNewConn(track bool) *Conn {
	return vBareConn(NewConfig("me"), track)
}

// vBareConn: an unconnected client as the real constructor and the real
// per-connection initialiser leave it, with roomier line queues so that a
// harness can collect what the command methods enqueue without a sender.
func vBareConn(cfg *Config, track bool) *Conn {
	conn := Client(cfg)
	conn.initialise()
	conn.out = make(chan string, 128)
	conn.in = make(chan *Line, 16)
	if track {
		conn.EnableStateTracking()
	}
	return conn
}

// C02 (b): every built-in handler, with too few / empty / odd parameters, with
// and without state tracking (the real tracker underneath): no panic escapes
// the dispatcher (panics inside a handler are caught by the configured Recover).
func VerifC02Handlers() {
	vSetOpt("deadlockIsViolation", 1)
	track := vLen("track", 0, 1) == 1
	conn := vNewConn(track)
	if track {
		// a little state so that handlers find a channel and a nick
		conn.st.NewChannel("#c")
		conn.st.Associate("#c", "me")
		conn.st.NewNick("n")
		conn.st.Associate("#c", "n")
	}
	verbs := vC02Verbs()
	vAssert(len(verbs) >= 10, "handler-tables-read")
	v := vLen("verb", 0, len(verbs)-1)
	src := ""
	if vLen("hassrc", 0, 1) == 1 {
		src = ":n!u@h "
	}
	rest := vStr("rest", vLen("restlen", 0, vParam("L", 4)))
	vASCII(rest)
	s := src + verbs[v] + rest
	l := ParseLine(s)
	if l != nil {
		conn.dispatch(l)
		vRunPending()
	}
	_ = vDrain(conn)
	// ... and the connection keeps working: well-formed lines that follow (one of the same
	// verb family, a PING, a PRIVMSG) are still handled - nothing is left locked or wedged
	got := 0
	conn.HandleFunc("PRIVMSG", func(*Conn, *Line) { got++ })
	for _, next := range []string{":srv CAP * LS :a b", ":srv CAP * ACK :a", "PING :tok", ":srv 433 * me :in use", ":n!u@h PRIVMSG #c :still alive"} {
		conn.dispatch(ParseLine(next))
		vRunPending()
	}
	out := vDrain(conn)
	pong := false
	for _, o := range out {
		pong = pong || o == "PONG :tok"
	}
	vAssert(pong, "later-PING-still-answered")
	vAssert(got == 1, "later-line-still-dispatched")
	vAssert(conn.SupportsCapability("a") && conn.HasCapability("a"), "capability-state-still-works")
	vReach("end")
}

// C02 (c): whatever bytes precede it, a well-formed line that follows is still
// read, parsed and queued by the real recv loop; nothing panics. The byte stream
// is delivered in one or two reads with a symbolic cut.
func VerifC02Recv() {
	conn := vNewConn(false)
	junk := vStr("junk", vLen("junklen", 0, vParam("L", 4)))
	vASCII(junk)
	if lo := vParam("LONG", 0); lo > 0 {
		// a line around / beyond the reader's 4096-byte buffer: filler + the symbolic bytes
		junk = vFiller('j', vLen("long", lo, lo+vParam("LONGSPAN", 0))) + junk
	}
	stream := junk + "\n" + "PRIVMSG #c :hi\r\n"
	var cut int
	if vParam("LONG", 0) > 0 {
		cut = []int{0, 1, 4095, 4096, 4097}[vLen("cutsel", 0, 4)] // reads split around the buffer size
	} else {
		cut = vLen("cut", 0, len(junk)+2)
	}
	var w *vWire
	if cut == 0 {
		w = vNewWire(stream)
	} else {
		w = vNewWire(stream[:cut], stream[cut:])
	}
	conn.sock = w
	conn.postConnect(nil, false)
	conn.wg.Add(1)
	conn.recv()
	var last *Line
	n := 0
	for {
		var l *Line
		select {
		case l = <-conn.in:
		default:
		}
		if l == nil {
			break
		}
		last = l
		n++
	}
	vAssert(n >= 1, "something-queued")
	if last != nil {
		vAssert(last.Cmd == "PRIVMSG" && len(last.Args) == 2 && last.Args[0] == "#c" && last.Args[1] == "hi", "later-line-processed")
		vAssert(last.Raw == "PRIVMSG #c :hi", "later-line-raw")
	}
	vReach("end")
}

// vC02Shapes: for the verbs with protocol structure, well-formed beginnings
// after which the symbolic suffix lands in the parameter a handler dissects.
var vC02Shapes = []string{
	"CAP * LS :", "CAP * ACK :", "CAP * NAK :", "CAP * LS ", "CAP me ",
	":srv 001 me :", ":srv 001 ", ":srv 433 * ", ":srv 433 me ",
	":n!u@h MODE #c ", ":n!u@h MODE #c +o ", ":n!u@h MODE #c +kl ", ":me MODE me ",
	":srv 353 me = #c :", ":srv 353 me = ", ":srv 352 me #c u h s n ", ":srv 352 me #c u h s n H :",
	":n!u@h JOIN ", ":me!u@h JOIN ", ":n!u@h KICK #c ", ":n!u@h PART ", ":n!u@h TOPIC #c :", ":n!u@h NICK ",
	":srv 324 me #c ", ":srv 332 me #c :", ":srv 311 me n u h * :", ":srv 671 me ", "AUTHENTICATE ",
	":n!u@h PRIVMSG me :\001", ":n!u@h PRIVMSG me :\001PING ", ":n!u@h PRIVMSG me :\001VERSION",
	// with a closing \001 after the symbolic part ("beginning|end"): complete CTCP messages
	":n!u@h PRIVMSG me :\001|\001", ":n!u@h PRIVMSG me :\001PING |\001", ":n!u@h PRIVMSG me :\001VERSION|\001",
	":n!u@h PRIVMSG #c :\001ACTION |\001", ":n!u@h NOTICE me :\001PING |\001", ":n!u@h NOTICE me :\001|\001",
}

// vShapeParts splits "beginning|end" (the end is empty for most shapes).
func vShapeParts(shape string) (string, string) {
	for i := 0; i < len(shape); i++ {
		if shape[i] == '|' {
			return shape[:i], shape[i+1:]
		}
	}
	return shape, ""
}

// C02 (b'): the same as VerifC02Handlers but the symbolic bytes come after a
// well-formed beginning, so they reach the parameters the handlers dissect.
func VerifC02HandlerShapes() {
	vSetOpt("deadlockIsViolation", 1)
	track := vLen("track", 0, 1) == 1
	conn := vNewConn(track)
	if track {
		conn.st.NewChannel("#c")
		conn.st.Associate("#c", "me")
		conn.st.NewNick("n")
		conn.st.Associate("#c", "n")
	}
	shape := vC02Shapes[vLen("shape", 0, len(vC02Shapes)-1)]
	rest := vStr("rest", vLen("restlen", 0, vParam("L", 2)))
	vASCII(rest)
	if run := vParam("RUN", 0); run > 0 {
		// a long run of one arbitrary byte value (any of the 256) after the beginning
		f := vStr("runbyte", 1)
		// (not CR/LF; not C2/E1/E2/E3, the lead bytes of multi-byte Unicode spaces, which the white-space models refuse)
		vAssume(f[0] != '\r' && f[0] != '\n' && f[0] != 0xC2 && f[0] != 0xE1 && f[0] != 0xE2 && f[0] != 0xE3)
		if pre, _ := vShapeParts(shape); true {
			inVerb := false
			for i := 0; i < len(pre); i++ {
				if pre[i] == '\001' {
					inVerb = true
				} else if pre[i] == ' ' {
					inVerb = false
				}
			}
			if inVerb {
				vAssume(f[0] < 0x80) // the run is part of the CTCP verb, which goes through strings.ToUpper (ASCII-only model)
			}
		}
		b := make([]byte, run)
		for i := range b {
			b[i] = f[0]
		}
		rest = string(b) + rest
	}
	pre, post := vShapeParts(shape)
	l := ParseLine(pre + rest + post)
	if l != nil {
		conn.dispatch(l)
		vRunPending()
	}
	_ = vDrain(conn)
	got := 0
	conn.HandleFunc("PRIVMSG", func(*Conn, *Line) { got++ })
	// then a well-formed line for every verb with a built-in handler (a handler that was
	// left half-done by the odd line - a lock still held, say - shows up here as a deadlock)
	for _, next := range vC02WellFormed {
		conn.dispatch(ParseLine(next))
		vRunPending()
	}
	_ = vDrain(conn)
	for _, next := range []string{":srv CAP * LS :a b", ":srv CAP * ACK :a", "PING :tok", ":n!u@h PRIVMSG #c :still alive"} {
		conn.dispatch(ParseLine(next))
		vRunPending()
	}
	out := vDrain(conn)
	pong := false
	for _, o := range out {
		pong = pong || o == "PONG :tok"
	}
	vAssert(pong, "later-PING-still-answered")
	vAssert(got == 1, "later-line-still-dispatched")
	vAssert(conn.SupportsCapability("a") && conn.HasCapability("a"), "capability-state-still-works")
	vReach("end")
}

// vC02WellFormed: one ordinary line per verb that has a built-in handler.
var vC02WellFormed = []string{
	":srv 001 me :welcome me!u@h", ":n!u@h JOIN #c", ":srv 353 me = #c :@n +v me", ":srv 332 me #c :topic", ":srv 324 me #c +nt",
	":srv 352 me #c u h s n H :0 real", ":n!u@h MODE #c +o n", ":me MODE me +i", ":n!u@h TOPIC #c :new", ":n!u@h NICK n2", ":n2!u@h NICK n",
	":srv 311 me n u h * :real", ":srv 671 me n :secure", ":n!u@h PRIVMSG me :\001VERSION\001", ":n!u@h PRIVMSG me :\001PING 1\001",
	":n!u@h KICK #c x :bye", ":n!u@h PART #c :bye", ":x!u@h QUIT :gone", ":srv 433 * n3 :in use", "AUTHENTICATE +",
}

// C02 (d): the same odd lines arriving over a live connection - real Connect through the
// stub dialler, real recv / runLoop / send goroutines and write(). Whatever the built-in
// handlers answer (an echo of 600 bytes, say), the connection must stay up: the PING and
// the PRIVMSG that follow are read, dispatched and answered, and the answer reaches the
// server's end of the wire.
func VerifC02Live() {
	vSetOpt("deadlockIsViolation", 1)
	track := vLen("track", 0, 1) == 1
	cfg := NewConfig("me")
	cfg.Server, cfg.Proxy = "srv:1", "vtest://proxy"
	cfg.PingFreq = 0
	cfg.Flood = true
	shape := vC02Shapes[vLen("shape", 0, len(vC02Shapes)-1)]
	rest := vStr("rest", vLen("restlen", 0, vParam("L", 1)))
	vASCII(rest)
	if run := vParam("RUN", 0); run > 0 {
		f := vStr("runbyte", 1)
		vAssume(f[0] != '\r' && f[0] != '\n' && f[0] != 0xC2 && f[0] != 0xE1 && f[0] != 0xE2 && f[0] != 0xE3)
		pre, _ := vShapeParts(shape)
		inVerb := false
		for i := 0; i < len(pre); i++ {
			if pre[i] == '\001' {
				inVerb = true
			} else if pre[i] == ' ' {
				inVerb = false
			}
		}
		if inVerb {
			vAssume(f[0] < 0x80)
		}
		b := make([]byte, run)
		for i := range b {
			b[i] = f[0]
		}
		rest = string(b) + rest
	}
	pre, post := vShapeParts(shape)
	stream := ":me!u@h JOIN #c\r\n:srv 353 me = #c :me n\r\n" + pre + rest + post + "\r\n" + "PING :tok\r\n:n!u@h PRIVMSG #c :still alive\r\n"
	w := vNewLiveWire(stream)
	vInstallDialer(&vDialer{wire: w})
	conn := Client(cfg)
	if track {
		conn.EnableStateTracking()
	}
	got := 0
	conn.HandleFunc("PRIVMSG", func(_ *Conn, l *Line) {
		if l.Text() == "still alive" {
			got++
		}
	})
	err := conn.Connect()
	vAssume(err == nil)
	vRunPending()
	all := ""
	for _, x := range w.written {
		all += x
	}
	vAssert(vContains(all, "PONG :tok\r\n"), "live:later-PING-answered-on-the-wire")
	vAssert(got == 1, "live:later-line-still-dispatched")
	vAssert(conn.Connected(), "live:still-connected")
	conn.Close()
	vRunPending()
	vReach("end")
}
