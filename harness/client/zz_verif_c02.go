//go:build verif

package client

// C02 (a): no byte string makes ParseLine or the accessors panic.
func VerifC02Parse() {
	n := vLen("n", 0, vParam("L", 6))
	s := vStr("s", n)
	vASCII(s)
	l := ParseLine(s)
	if l != nil {
		_ = l.Text()
		_ = l.Target()
		_ = l.Public()
	}
	vReach("end")
}
