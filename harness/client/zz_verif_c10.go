//go:build verif

package client

import (
	"context"
	"time"
)

const vSec = int(time.Second)

// VerifC10Step: one rateLimit step from an arbitrary state against Hybrid's rule.
func VerifC10Step() {
	conn := &Conn{cfg: &Config{}}
	b := vInt("badness")
	vAssume(b >= 0)
	vAssume(b <= 1<<40)
	chars := vInt("chars")
	vAssume(chars >= 0)
	vAssume(chars <= 1<<20)
	conn.badness = time.Duration(b)
	conn.lastsent = vNow() // clock reading 0: any instant
	ret := conn.rateLimit(chars)
	// the implementation may read the clock once or several times: the elapsed time is measured at
	// its first reading, and the new "last accounting" instant is some reading taken during the call
	vAssert(vEventCount("now") >= 2, "reads-the-clock")
	if vEventCount("now") < 2 {
		return
	}
	t0, t1, t2 := vEventInt("now", 0), vEventInt("now", 1), vEventInt("now", vEventCount("now")-1)
	charge := 2*vSec + chars*vSec/120
	nb := b + charge - (t1 - t0)
	if nb < 0 {
		nb = 0
	}
	vAssert(int(conn.badness) == nb, "penalty-rule")
	vAssert(conn.badness >= 0, "penalty-nonnegative")
	want := 0
	if nb > 10*vSec {
		want = charge
	}
	vAssert(int(ret) == want, "hold-iff-over-10s")
	ls := int(conn.lastsent.Sub(time.Time{}))
	vAssert(ls >= t1 && ls <= t2, "lastsent-is-a-reading-taken-during-the-call")
	vReach("end")
}

func vFill(n int) string {
	b := make([]byte, n)
	for i := range b {
		b[i] = 'x'
	}
	return string(b)
}

func vCharge(chars int) int { return 2*vSec + chars*vSec/120 }

// VerifC10Write: write() consults the limiter only when Flood is off, sleeps
// for exactly the returned duration, and does so before the line hits the wire.
func VerifC10Write() {
	flood := vBool("flood")
	w := vNewWire()
	w.stamp = true
	conn := &Conn{cfg: &Config{Flood: flood}}
	conn.sock = w
	conn.postConnect(nil, false)
	b := vInt("badness")
	vAssume(b >= 0)
	vAssume(b <= 1<<40)
	conn.badness = time.Duration(b)
	conn.lastsent = vNow()
	n := vLen("n", 0, 3)
	line := vStr("linebytes", n) // any bytes (multi-byte characters included): the charge is per byte on the wire
	for i := 0; i < n; i++ {
		vAssume(line[i] != '\r' && line[i] != '\n')
	}
	err := conn.write(line)
	vAssert(err == nil, "write-ok")
	vAssert(len(w.written) == 1 && w.written[0] == line+"\r\n", "wire")
	if flood {
		vAssert(vEventCount("sleep") == 0, "flood-never-sleeps")
		vAssert(time.Duration(b) == conn.badness, "flood-no-accounting")
	} else {
		vAssert(vEventCount("now") >= 3, "reads-the-clock") // harness, limiter, wire stamp
		if vEventCount("now") < 3 {
			return
		}
		t0, t1 := vEventInt("now", 0), vEventInt("now", 1)
		nb := b + vCharge(n) - (t1 - t0)
		if nb < 0 {
			nb = 0
		}
		if nb > 10*vSec {
			vAssert(vEventCount("sleep") == 1, "sleeps-once-when-over")
			if vEventCount("sleep") == 1 {
				vAssert(vEventInt("sleep", 0) == vCharge(n), "sleeps-own-charge")
				vAssert(vEventPos("sleep", 0) < vEventPos("mark:write", 0), "sleep-before-write")
			}
		} else {
			vAssert(vEventCount("sleep") == 0, "no-sleep-when-under")
		}
		vAssert(int(conn.badness) == nb, "penalty-rule")
	}
	vReach("end")
}

var vC10Lens = []int{0, 120, 510}

// VerifC10Window: k consecutive lines from a fresh client through the real
// write(); idle gaps are arbitrary (every clock reading is a solver variable).
// Per step: the penalty follows the rule and the hold happens exactly when it
// must. For every run i..j: total charge <= wall time between the two writes
// + 10 s + the two lines' charges. Environment contract: a line reaches the
// socket at most 2 s (the minimum charge) after its accounting / hold ended.
func VerifC10Window() {
	k := vParam("K", 3)
	w := vNewWire()
	w.stamp = true
	conn := &Conn{cfg: &Config{}}
	conn.sock = w
	conn.postConnect(nil, false)
	conn.lastsent = vNow() // as Client() does
	last := vEventInt("now", 0)
	pen := 0
	charges := make([]int, k)
	for i := 0; i < k; i++ {
		n := vC10Lens[vLen("len"+string([]byte{byte('0' + i)}), 0, len(vC10Lens)-1)]
		charges[i] = vCharge(n)
		nowBefore, sleepsBefore := vEventCount("now"), vEventCount("sleep")
		err := conn.write(vFill(n))
		vAssert(err == nil, "write-ok")
		vAssert(vEventCount("now") >= nowBefore+2, "reads-the-clock") // at least: the limiter's reading and the wire stamp
		if vEventCount("now") < nowBefore+2 {
			return
		}
		t1 := vEventInt("now", nowBefore) // the limiter's first reading for this line
		pen = pen + charges[i] - (t1 - last)
		if pen < 0 {
			pen = 0
		}
		last = int(conn.lastsent.Sub(time.Time{})) // whichever reading the limiter kept
		vAssert(last >= t1, "lastsent-not-before-the-accounting")
		// the instant the line was ready for the socket: the last reading before the wire stamp
		ready := vEventInt("now", vEventCount("now")-2)
		if pen > 10*vSec {
			vAssert(vEventCount("sleep") == sleepsBefore+1, "held-when-over")
			if vEventCount("sleep") == sleepsBefore+1 {
				vAssert(vEventInt("sleep", sleepsBefore) == charges[i], "held-own-charge")
			}
		} else {
			vAssert(vEventCount("sleep") == sleepsBefore, "not-held-when-under")
		}
		vAssert(int(conn.badness) == pen, "penalty-rule")
		vAssert(len(w.stamps) == i+1, "one-write-per-line")
		if len(w.stamps) != i+1 {
			return
		}
		vAssume(w.stamps[i]-ready <= 2*vSec) // environment contract (see above)
	}
	for i := 0; i < k; i++ {
		total := 0
		for j := i; j < k; j++ {
			total += charges[j]
			if j > i {
				vAssert(total <= (w.stamps[j]-w.stamps[i])+10*vSec+vTwoLargest(charges[i:j+1]), "window-bound")
			}
		}
	}
	vReach("end")
}

// vTwoLargest: the sum of the two largest charges of a run ("10 s plus two lines'
// charges": the decay credited together with a new line's charge can offset up to
// that line's charge, so the two lines that count are not always the first and last).
func vTwoLargest(c []int) int {
	a, b := 0, 0
	for _, x := range c {
		if x > a {
			a, b = x, a
		} else if x > b {
			b = x
		}
	}
	return a + b
}

// VerifC10Queued: k lines are already queued when the real send goroutine
// starts (a burst); what is judged is when each line's bytes reach the socket -
// the clock reading of the socket write that carried them, however the client
// groups lines into writes. For every run i..j of consecutive lines:
// total charge <= time between the two arrivals + 10 s + the two lines' charges.
// Environment contract: between two consecutive clock readings of the client at
// most 2 s pass beyond the holds it asked for in between (the machine is not
// stalled; a hold of d lasts at most d + 2 s).
func VerifC10Queued() {
	k := vParam("K", 4)
	w := vNewWire()
	w.stamp = true
	conn := vBareConn(&Config{}, false)
	conn.sock = w
	conn.postConnect(nil, false)
	conn.out = make(chan string, k)
	charges := make([]int, k)
	for i := 0; i < k; i++ {
		n := vC10Lens[vLen("len"+string([]byte{byte('0' + i)}), 0, len(vC10Lens)-1)]
		charges[i] = vCharge(n)
		conn.out <- vFill(n)
	}
	ctx, cancel := context.WithCancel(context.Background())
	_ = cancel
	conn.wg.Add(1)
	go conn.send(ctx)
	vRunPending()
	vDropPending()
	// environment contract over the whole run
	nnow, nsleep := vEventCount("now"), vEventCount("sleep")
	for r := 1; r < nnow; r++ {
		slack := 2 * vSec
		lo, hi := vEventPos("now", r-1), vEventPos("now", r)
		for s := 0; s < nsleep; s++ {
			if p := vEventPos("sleep", s); p > lo && p < hi {
				slack += vEventInt("sleep", s)
			}
		}
		vAssume(vEventInt("now", r)-vEventInt("now", r-1) <= slack)
	}
	// arrival time of every line: the stamp of the socket write that contained its CRLF
	var arrival []int
	for c, chunk := range w.written {
		for i := 0; i+1 < len(chunk); i++ {
			if chunk[i] == '\r' && chunk[i+1] == '\n' {
				arrival = append(arrival, w.stamps[c])
			}
		}
	}
	vAssert(len(arrival) == k, "every-queued-line-reached-the-socket")
	if len(arrival) != k {
		return
	}
	for i := 0; i < k; i++ {
		total := 0
		for j := i; j < k; j++ {
			total += charges[j]
			if j > i {
				vAssert(total <= (arrival[j]-arrival[i])+10*vSec+vTwoLargest(charges[i:j+1]), "window-bound")
			}
		}
	}
	vReach("end")
}
