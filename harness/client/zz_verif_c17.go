//go:build verif

package client

func vGenNick(name string, maxLen int) string {
	s := vStr(name, vLen(name+"len", 1, maxLen))
	for i := 0; i < len(s); i++ {
		b := s[i]
		vAssume(b < 0x80 && b != 0 && b != ' ' && b-9 >= 5 && b != '!' && b != '@' && b != ':' && b != '#' && b != '&')
	}
	return s
}

// VerifC17Step: one server event from any state in which the client's idea of
// its nick equals the server's. Afterwards it still does, Me() and Config().Me
// are non-nil, and a collision is answered with NICK <generator(refused)>.
func VerifC17Step() {
	track := vLen("track", 0, 1) == 1
	custom := vLen("customgen", 0, 1) == 1
	L := vParam("NL", 2)
	mine := vGenNick("mine", L)
	cfg := NewConfig(mine)
	genOut := ""
	genCalls := 0
	if custom {
		// a generator that is not a pure function: it hands out genOut first and something else on
		// every later call (a list of alternates, a counter, random digits ...)
		genOut = vGenNick("gen", L)
		cfg.NewNick = func(string) string {
			genCalls++
			if genCalls == 1 {
				return genOut
			}
			return genOut + "_"
		}
	}
	conn := Client(cfg)
	conn.initialise()
	conn.out = make(chan string, 16)
	if track {
		conn.EnableStateTracking()
	}
	phase := vLen("phase", 0, 1) // 0: before the welcome, 1: after
	other := ""
	if phase == 1 && vLen("hasother", 0, 1) == 1 {
		other = vGenNick("other", L)
		vAssume(other != mine)
		if track {
			conn.st.NewChannel("#c")
			conn.st.Associate("#c", mine)
			conn.st.NewNick(other)
			conn.st.Associate("#c", other)
		}
	}
	vAssert(conn.Me() != nil && conn.Me().Nick == mine, "pre-relation")
	server := mine // the nick the server uses for the client (before the welcome: the last one requested)
	wantWire := ""
	ev := vLen("event", 0, 4)
	var raw string
	switch ev {
	case 0: // 433 for the pending nick, before the welcome
		vAssume(phase == 0)
		raw = ":srv 433 * " + mine + " :Nickname is already in use"
		next := genOut
		if !custom {
			next = DefaultNewNick(mine)
		}
		wantWire = "NICK " + next
		server = next
	case 1: // the welcome, confirming or changing the nick
		vAssume(phase == 0)
		n2 := mine
		if vLen("welcomechanges", 0, 1) == 1 {
			n2 = vGenNick("welcome", L)
		}
		raw = ":srv 001 " + n2 + " :Welcome"
		if vLen("withmask", 0, 1) == 1 {
			raw += " to the net " + n2 + "!id@ho"
		}
		server = n2
	case 2: // NICK for the client (confirmed or forced), after the welcome
		vAssume(phase == 1)
		n2 := vGenNick("renamed", L)
		vAssume(n2 != other) // a server never renames anyone to a nick in use
		raw = ":" + mine + "!id@ho NICK " + n2
		if vLen("trailingform", 0, 1) == 1 {
			raw = ":" + mine + "!id@ho NICK :" + n2
		}
		server = n2
	case 3: // 433 for a nick the user asked for, after the welcome: refused, nothing changes
		vAssume(phase == 1)
		asked := vGenNick("asked", L)
		vAssume(asked != mine)
		raw = ":srv 433 " + mine + " " + asked + " :Nickname is already in use"
		next := genOut
		if !custom {
			next = DefaultNewNick(asked)
		}
		wantWire = "NICK " + next
	case 4: // NICK of another user (possibly a prefix / extension of the client's nick)
		vAssume(phase == 1 && other != "")
		n2 := vGenNick("otherrenamed", L)
		vAssume(n2 != mine && n2 != other)
		raw = ":" + other + "!id@ho NICK " + n2
	}
	l := ParseLine(raw)
	vAssume(l != nil)
	conn.dispatch(l)
	vRunPending()
	lines := vDrain(conn)
	if wantWire != "" {
		if custom && genCalls > 1 && len(lines) == 1 && lines[0] == "NICK "+genOut+"_" {
			// the generator was consulted more than once and a later answer was sent: acceptable as long
			// as the client's own idea of its nick follows what it sent (checked below)
			wantWire = lines[0]
			if ev == 0 {
				server = genOut + "_"
			}
		}
		vAssert(len(lines) == 1 && lines[0] == wantWire, "asks-for-generated-nick")
	} else {
		vAssert(len(lines) == 0, "no-unprompted-nick-change")
	}
	vAssert(conn.Config().Me != nil, "config-me-non-nil")
	me := conn.Me()
	vAssert(me != nil, "me-non-nil")
	if me != nil {
		vAssert(me.Nick == server, "me-is-servers-nick")
	}
	vAssert(conn.Config().Me != nil, "config-me-non-nil-after-Me")
	// second step: the user who now holds the client's previous nick changes nick; the client's is unaffected
	if server != mine && me != nil && vLen("old-holder-renames", 0, 1) == 1 {
		n3 := vGenNick("holder-new", L)
		vAssume(n3 != server && n3 != other && n3 != mine)
		l2 := ParseLine(":" + mine + "!x@y NICK " + n3)
		vAssume(l2 != nil)
		conn.dispatch(l2)
		vRunPending()
		vDrain(conn)
		me2 := conn.Me()
		vAssert(me2 != nil && me2.Nick == server, "unaffected-by-old-nick-holder")
	}
	vReach("end")
}

// VerifC17NewNick: the default generator yields, for every non-empty nick, a
// nick of the same length that differs from it in the last byte only.
func VerifC17NewNick() {
	old := vStr("old", vLen("oldlen", 1, 3))
	neu := DefaultNewNick(old)
	vAssert(len(neu) == len(old), "same-length")
	if len(neu) == len(old) {
		n := len(old)
		vAssert(neu[:n-1] == old[:n-1], "same-prefix")
		vAssert(neu[n-1] != old[n-1], "last-byte-differs")
	}
	vReach("end")
}

// VerifC17Reconnect: the nick bookkeeping across connections of one client, through the
// real Connect / recv / runLoop / send. Session 1: welcome, then the server renames the
// client. The connection is lost; on the next one the client registers with its current
// nick, the server refuses it (433), the client asks for the generated one and is welcomed
// under it. After every step Me() is the nick the server uses. A NICK handler of the
// application looks at Me() (as user code does); only the server end of each wire is read.
func VerifC17Reconnect() {
	track := vLen("track", 0, 1) == 1
	nb := vStr("newnick", 1)
	vAssume(nb[0] < 0x80 && (nb[0]|0x20)-'a' < 26)
	newnick := "n" + nb
	cfg := NewConfig("me")
	cfg.Server, cfg.Proxy, cfg.PingFreq, cfg.Flood = "srv:1", "vtest://p", 0, true
	gen := cfg.NewNick(newnick)
	w1 := vNewLiveWire(":srv 001 me :Welcome\r\n:me!u@h NICK " + newnick + "\r\n")
	w2 := vNewLiveWire(":srv 433 * " + newnick + " :Nickname is already in use\r\n:srv 001 " + gen + " :Welcome\r\n")
	d := &vDialer{wires: []*vWire{w1, w2}}
	vInstallDialer(d)
	conn := Client(cfg)
	if track {
		conn.EnableStateTracking()
	}
	conn.HandleFunc("NICK", func(c *Conn, l *Line) { _ = c.Me() })
	err := conn.Connect()
	vAssume(err == nil)
	vRunPending()
	vAssert(conn.Me() != nil && conn.Config().Me != nil, "reconnect:me-non-nil")
	vAssert(conn.Me().Nick == newnick, "reconnect:me-is-servers-nick")
	conn.Close()
	vRunPending()
	err = conn.Connect()
	vAssume(err == nil)
	vRunPending()
	reg, asked := false, false
	for _, x := range w2.written {
		reg = reg || x == "NICK "+newnick+"\r\n"
		asked = asked || x == "NICK "+gen+"\r\n"
	}
	vAssert(reg, "reconnect:registers-with-current-nick")
	vAssert(asked, "reconnect:asks-for-generated-nick")
	vAssert(conn.Me() != nil && conn.Config().Me != nil, "reconnect:me-non-nil")
	vAssert(conn.Me().Nick == gen, "reconnect:me-is-servers-nick")
	conn.Close()
	vRunPending()
	vReach("end")
}

// VerifC17LongLine: a server line longer than the reader's 4096-byte buffer whose tail, taken
// on its own, reads like a NICK change of the client (a chat message from another user can
// say anything). It is one PRIVMSG: the client's nick does not change, with or without
// tracking. The filler length is chosen so that the tail starts around offset 4096.
func VerifC17LongLine() {
	track := vLen("track", 0, 1) == 1
	cfg := NewConfig("me")
	cfg.Server, cfg.Proxy, cfg.PingFreq, cfg.Flood = "srv:1", "vtest://p", 0, true
	head := ":u!i@h PRIVMSG #c :"
	tail := ":me!i@h NICK :hijacked"
	fill := vFiller('x', 4096-len(head)+vLen("shift", 0, 2)-1)
	w := vNewLiveWire(":srv 001 me :Welcome\r\n", head+fill+tail+"\r\n", ":srv NOTICE me :after\r\n")
	vInstallDialer(&vDialer{wire: w})
	conn := Client(cfg)
	if track {
		conn.EnableStateTracking()
	}
	msgs := 0
	conn.HandleFunc("PRIVMSG", func(c *Conn, l *Line) { msgs++ })
	err := conn.Connect()
	vAssume(err == nil)
	vRunPending()
	vAssert(msgs == 1, "longline:delivered-as-one-message")
	vAssert(conn.Me() != nil && conn.Me().Nick == "me", "longline:me-is-servers-nick")
	conn.Close()
	vRunPending()
	vReach("end")
}
