//go:build verif

package client

import (
	"context"
	"sync"
)

func vItoa(n int) string {
	if n == 0 {
		return "0"
	}
	s := ""
	for n > 0 {
		s = string([]byte{byte('0' + n%10)}) + s
		n /= 10
	}
	return s
}

// VerifC09Order: S concurrent senders (user goroutines and a handler) hand L
// lines each to the client; the peer reads fast, slowly or in one burst after
// everything was issued. Every line reaches the wire exactly once, byte for
// byte, and each sender's lines in the order it issued them.
func VerifC09Order() {
	vSetOpt("schedExplore", 1)
	vSetOpt("maxSwitches", vParam("SW", 1))
	vYieldKinds("yield")
	S, L := vParam("S", 2), vParam("L", 3)
	big := vParam("BIG", 0) // extra lines for sender 0: more than the queue holds
	w := vNewLiveWire(":srv GO x\r\n")
	speed := vLen("speed", 0, 2)
	total := 2 + S*L + big // NICK, USER + the senders' lines
	if speed > 0 {
		w.writeGate = make(chan struct{}, total)
	}
	d := &vDialer{wire: w}
	vInstallDialer(d)
	cfg := NewConfig("me")
	cfg.Server, cfg.Proxy, cfg.PingFreq, cfg.Flood = "srv:1", "vtest://p", 0, true
	conn := Client(cfg)
	var issued sync.WaitGroup
	issued.Add(S)
	send := func(id, n int) {
		for k := 0; k < n; k++ {
			tag := "s" + vItoa(id) + "-" + vItoa(k)
			switch (id + k) % 4 { // every sender goes through several API methods
			case 0:
				conn.Raw("PRIVMSG #c :" + tag)
			case 1:
				conn.Pong(tag)
			case 2:
				conn.Privmsg("#c", tag)
			case 3:
				conn.Notice("#c", tag)
			}
			vYield()
		}
		issued.Done()
	}
	// the last sender is a foreground handler reacting to a server line
	conn.HandleFunc("GO", func(*Conn, *Line) { send(S-1, L) })
	err := conn.ConnectContext(context.Background())
	vAssert(err == nil, "connect-ok")
	for id := 0; id < S-1; id++ {
		n := L
		if id == 0 {
			n += big
		}
		go send(id, n)
	}
	switch speed {
	case 1: // slow peer: one line at a time
		go func() {
			for i := 0; i < total; i++ {
				w.writeGate <- struct{}{}
				vYield()
			}
		}()
	case 2: // burst: nothing is read until everything was issued (or the queue is full and the senders wait)
		vRunPending()
		for i := 0; i < total; i++ {
			w.writeGate <- struct{}{}
		}
	}
	vRunPending()
	vAssert(len(w.written) == total, "every-line-written-exactly-once")
	next := make([]int, S)
	reg := 0
	for _, raw := range w.written {
		if len(raw) > 5 && (raw[:5] == "NICK " || raw[:5] == "USER ") {
			reg++ // registration is sent concurrently with the event loop
			continue
		}
		ok := false
		for id := 0; id < S; id++ {
			tag := "s" + vItoa(id) + "-" + vItoa(next[id])
			want := "PRIVMSG #c :" + tag
			switch (id + next[id]) % 4 {
			case 1:
				want = "PONG :" + tag
			case 3:
				want = "NOTICE #c :" + tag
			}
			if raw == want+"\r\n" {
				next[id]++
				ok = true
				break
			}
		}
		vAssert(ok, "line-is-the-next-of-its-sender-byte-for-byte")
	}
	vAssert(reg == 2, "registration-lines-once")
	for id := 0; id < S; id++ {
		want := L
		if id == 0 {
			want += big
		}
		vAssert(next[id] == want, "all-lines-of-every-sender-arrived")
	}
	vReach("end")
}

// VerifC09Bytes: write() puts exactly line+CRLF on the wire for lines of any
// length, including the 510..513-byte boundary and beyond.
func VerifC09Bytes() {
	lens := []int{0, 1, 509, 510, 511, 512, 513, 600, 4000}
	n := lens[vLen("len", 0, len(lens)-1)]
	line := ""
	if n > 0 {
		switch vLen("lastkind", 0, 2) {
		case 0:
			line = vFill(n-1) + vStr("last", 1)
			vAssume(line[n-1] != '\r' && line[n-1] != '\n')
		case 1: // Latin-1 text, not valid UTF-8
			line = vFill(n-1) + "\xe9"
		case 2: // a truncated multi-byte sequence in the middle
			line = "\xe2\x82" + vFill(n-1)
		}
	}
	w := vNewWire()
	conn := vBareConn(&Config{Flood: true}, false)
	conn.out = make(chan string, 4)
	conn.sock = w
	conn.postConnect(nil, false)
	conn.Raw(line)
	got := vDrain(conn)
	vAssert(len(got) == 1 && got[0] == line, "raw-enqueues-the-line-unchanged")
	if vLen("fault", 0, 1) == 1 {
		// the peer is slow: the first socket write accepts 0..3 bytes and then times out. Whatever the
		// client does next (give up, or carry on where it stopped), the peer never sees a byte twice:
		// the transcript is a prefix of line+CRLF, and all of it if the write reported success.
		w.partialOn, w.partialAt, w.partialN = true, 0, vLen("accepted", 0, 3)
		conn.cfg.Timeout = 1
		err := conn.write(line)
		all := ""
		for _, x := range w.written {
			all += x
		}
		want := line + "\r\n"
		vAssert(len(all) <= len(want) && all == want[:len(all)], "no-byte-written-twice-after-a-timeout")
		if err == nil {
			vAssert(all == want, "success-means-whole-line")
		}
		vReach("end")
		return
	}
	err := conn.write(line)
	vAssert(err == nil, "write-ok")
	err = conn.write("NEXT")
	vAssert(err == nil, "write-ok")
	vAssert(len(w.written) == 2 && w.written[0] == line+"\r\n" && w.written[1] == "NEXT\r\n", "wire-is-exactly-line-crlf")
	vReach("end")
}
