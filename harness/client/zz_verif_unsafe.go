//go:build verif

package client

import (
	"reflect"
	"unsafe"
)

const vStrSize = unsafe.Sizeof("")

func vMapID(m map[string]string) uintptr { return reflect.ValueOf(m).Pointer() }

func vSliceBase(s []string) uintptr { return reflect.ValueOf(s).Pointer() }
