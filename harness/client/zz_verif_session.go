//go:build verif

package client

import (
	"context"
	"sync"
	"time"

	"github.com/fluffle/goirc/logging"
)

// A scripted session over the real Connect / send / recv / runLoop / dispatch /
// Close with goroutines scheduled by the executor (schedule choices are solver
// inputs sched#k). One harness serves C03 (order, non-overlap, CONNECTED /
// DISCONNECTED placement), C05 (tracker applied before user handlers), C06
// (lifecycle events exactly once) and C16 (misbehaving handlers).

// The script: the welcome changes the nick, the client joins a channel, another
// user joins it and talks. The new nick's last byte, the channel name and the
// other user's nick are symbolic.
func vMakeScript(kind int) (script []string, nick, channel, user string) {
	nb, cb, ub := vStr("s-nick", 1), vStr("s-chan", 1), vStr("s-user", 1)
	for _, b := range []byte{nb[0], cb[0], ub[0]} {
		vAssume(b < 0x80 && b != 0 && b != ' ' && b-9 >= 5 && b != ':' && b != '!' && b != '@' && b != '#' && b != '&' && b != ',' && b != '*')
	}
	nick, channel, user = "me"+nb, "#"+cb, "u"+ub
	vAssume(user != nick)
	if kind == 1 {
		// a tracker-centred session without the welcome: the client (still "me") joins, another
		// user joins, is renamed, gets a privilege, sets the topic
		nick = "me"
		script = []string{
			":me!i@h JOIN " + channel,
			":" + user + "!i@h JOIN " + channel,
			":" + user + "!i@h NICK " + user + "x",
			":me!i@h MODE " + channel + " +o " + user + "x",
			":" + user + "x!i@h TOPIC " + channel + " :t",
		}
		return
	}
	if kind == 2 {
		// the tracker-centred session with the server using the optional IRCv3 batch form
		// (a netjoin batch: the members carry a batch tag between BATCH +ref and BATCH -ref)
		nick = "me"
		script = []string{
			":me!i@h JOIN " + channel,
			":srv BATCH +r netjoin",
			"@batch=r :" + user + "!i@h JOIN " + channel,
			"@batch=r :" + user + "!i@h NICK " + user + "x",
			":srv BATCH -r",
		}
		return
	}
	script = []string{
		":srv 001 " + nick + " :Welcome",
		":" + nick + "!i@h JOIN " + channel,
		"PING :" + user,
		":" + user + "!i@h JOIN " + channel,
		":" + user + "!i@h PRIVMSG " + channel + " :hi",
	}
	return
}

type vSess struct {
	mu                  sync.Mutex
	conn                *Conn
	n                   int         // number of script lines
	activeFG            map[int]int // seq -> foreground handlers currently inside
	entered             map[[2]int]int
	lastSeq             int
	recovered           int
	panicked            int
	connEnter           int
	connDone            int
	registers           int
	discEnter           int
	discWhileActive     bool
	track               bool
	panics              bool
	never               chan struct{}
	gate                chan struct{}
	script              []string
	nick, channel, user string
	tseq, tid, tbeh     int // the one handler invocation that misbehaves (yields mid-way / panics / blocks)
	kind                int // which script (0: welcome, join, ping, join, privmsg; 1: tracker-centred)
}

func (s *vSess) seqOf(l *Line) int {
	for i, x := range s.script {
		if l.Raw == x {
			return i
		}
	}
	return -1
}

// applied reports whether the tracker / client reflects script line seq.
func (s *vSess) applied(seq int) bool {
	if s.kind == 1 {
		return s.progress() >= seq
	}
	if s.kind == 2 {
		return s.progress() >= vBatchNeed[seq]
	}
	switch seq {
	case 0:
		return s.conn.Me().Nick == s.nick
	case 1:
		return s.conn.st.GetChannel(s.channel) != nil
	case 3:
		return s.conn.st.GetNick(s.user) != nil
	}
	return true
}

// progress: the last line of the tracker-centred script that the tracker reflects
// (-1: none). Every line of that script moves the state forward in a way the
// public queries can see, and none moves it back.
func (s *vSess) progress() int {
	st := s.conn.st
	ch := st.GetChannel(s.channel)
	if ch == nil {
		return -1
	}
	ux := s.user + "x"
	if ch.Topic == "t" {
		return 4
	}
	if cp, on := ch.Nicks[ux]; on && st.GetNick(ux) != nil {
		if cp.Op {
			return 3
		}
		return 2
	}
	if _, on := ch.Nicks[s.user]; on && st.GetNick(s.user) != nil {
		return 1
	}
	return 0
}

// stateful: script lines whose effect on the client / tracker the harness can observe.
func (s *vSess) stateful(seq int) bool {
	if s.kind == 2 {
		return seq == 2 || seq == 3
	}
	return s.kind == 1 || seq == 0 || seq == 1 || seq == 3
}

// vBatchNeed: how far the tracker must have got (progress()) to reflect line seq of the batch script.
var vBatchNeed = []int{0, 0, 1, 2, 2}

func (s *vSess) anyActive() bool {
	for _, n := range s.activeFG {
		if n > 0 {
			return true
		}
	}
	return false
}

// handler builds user handler number id; fg tells whether it is a foreground one.
func (s *vSess) handler(id int, fg bool) HandlerFunc {
	return func(c *Conn, l *Line) {
		seq := s.seqOf(l)
		vAssert(seq >= 0, "handler-got-a-script-line")
		if seq < 0 {
			return
		}
		s.mu.Lock()
		s.entered[[2]int{seq, id}]++
		if fg {
			for other, n := range s.activeFG {
				if other != seq {
					vAssert(n == 0, "fg-handlers-of-different-lines-never-overlap")
				}
			}
			vAssert(seq >= s.lastSeq, "fg-handlers-in-wire-order")
			if seq > s.lastSeq {
				s.lastSeq = seq
			}
			if seq > 0 && s.connEnter > 0 {
				vAssert(s.connDone == s.connEnter, "later-line-only-after-CONNECTED-finished")
			}
			s.activeFG[seq]++
		}
		if s.track {
			vAssert(s.applied(seq), "tracker-reflects-the-line-at-handler-entry")
		}
		beh := 0
		if seq == s.tseq && id == s.tid {
			beh = s.tbeh
		}
		s.mu.Unlock()
		if !fg && beh == 2 && s.panics {
			<-s.never // a background handler that never returns
		}
		if beh == 3 && fg {
			<-s.gate // a long-running foreground handler: returns only when the harness lets it
		}
		if beh >= 1 {
			vYield()
			if fg && s.track {
				s.mu.Lock()
				for later := seq + 1; later < s.n; later++ {
					if s.stateful(later) {
						vAssert(!s.applied(later), "tracker-not-ahead-while-fg-handler-runs")
					}
				}
				s.mu.Unlock()
			}
		}
		if fg && id == 1 && vParam("REPLY", 1) == 1 {
			c.Raw("PRIVMSG " + s.channel + " :ack") // handlers answer what they see, whatever state the connection is in by then
		}
		if fg {
			s.mu.Lock()
			s.activeFG[seq]--
			s.mu.Unlock()
		}
		if beh == 2 && s.panics && fg {
			s.mu.Lock()
			s.panicked++
			s.mu.Unlock()
			panic("handler misbehaves")
		}
	}
}

// VerifSession: see the file comment. Parameters: N lines, TRACK, PANICS, END (how the
// connection ends: 0 server EOF after everything was delivered, 1 Close from one
// goroutine, 2 Close from two goroutines racing with EOF), EARLY (the end is
// triggered while lines are still being processed).
func VerifSession() {
	vSetOpt("schedExplore", 1)
	vSetOpt("maxSwitches", vParam("SW", 2))
	vYieldKinds(vParamKinds())
	n := vParam("N", 3)
	s := &vSess{n: n, activeFG: map[int]int{}, entered: map[[2]int]int{}, track: vParam("TRACK", 1) == 1, panics: vParam("PANICS", 0) == 1, never: make(chan struct{}), gate: make(chan struct{})}
	s.kind = vParam("SCRIPT", 0)
	s.script, s.nick, s.channel, s.user = vMakeScript(s.kind)
	vScript := s.script
	slim := vParam("SLIM", 0) == 1 // fewer handler-behaviour and chunking variants (used where another dimension is the subject)
	if slim {
		s.tseq, s.tid, s.tbeh = 0, 0, vLen("tbeh", 0, 1)
	} else if ts := vParam("TSEQ", -1); ts >= 0 {
		s.tseq, s.tid, s.tbeh = ts, vLen("tid", 0, 2), vLen("tbeh", 0, 1) // the misbehaving invocation is on a given line
	} else {
		s.tseq, s.tid, s.tbeh = vLen("tseq", 0, n-1), vLen("tid", 0, 2), vLen("tbeh", 0, 3)
	}
	gated := s.tbeh == 3 && s.tid < 2
	// FRAG: the server hangs up in the middle of things - at the end the last script line arrives
	// without its CR-LF and the next read reports EOF
	frag := vParam("FRAG", 0) == 1
	stream := ""
	for i := 0; i < n; i++ {
		if !frag || i < n-1 {
			stream += vScript[i] + "\r\n"
		}
	}
	mkWire := vNewLiveWire
	var w *vWire
	nchunk := 3
	if slim {
		nchunk = 0
	} else if frag || vParam("TSEQ", -1) >= 0 {
		nchunk = 1
	}
	switch vLen("chunking", 0, nchunk) {
	case 0:
		w = mkWire(stream)
	case 1:
		w = mkWire(stream[:7], stream[7:])
	case 2:
		k := len(vScript[0]) + 1 // between CR and LF of the first line
		w = mkWire(stream[:k], stream[k:])
	case 3:
		k := len(vScript[0]) + 2 // exactly at a line boundary
		w = mkWire(stream[:k], stream[k:])
	}
	// should the client ever set a read deadline: the server falls silent once, in the middle of the
	// second line, for longer than that deadline (a timeout is reported), then carries on
	w.stallAt = len(vScript[0]) + 2 + 5
	d := &vDialer{wire: w}
	vInstallDialer(d)
	cfg := NewConfig("me")
	cfg.Server, cfg.Proxy, cfg.PingFreq, cfg.Flood = "srv:1", "vtest://p", 0, true
	cfg.Recover = func(c *Conn, l *Line) {
		if r := recover(); r != nil {
			s.mu.Lock()
			s.recovered++
			s.mu.Unlock()
		}
	}
	conn := Client(cfg)
	s.conn = conn
	if vParam("FLOODHOLD", 0) == 1 {
		// flood control on, and already engaged: the sender holds back the very first lines
		// (holds last "long": a timer does not fire while anything else can still happen)
		vSetOpt("lazyTimers", 1)
		cfg.Flood = false
		conn.badness = 20 * time.Second
	}
	if s.track {
		conn.EnableStateTracking()
	}
	for _, ev := range []string{"001", "JOIN", "PING", "PRIVMSG", "NICK", "MODE", "TOPIC", "BATCH"} {
		conn.HandleFunc(ev, s.handler(0, true))
		conn.HandleFunc(ev, s.handler(1, true))
		conn.HandleBG(ev, s.handler(2, false))
	}
	conn.HandleFunc(REGISTER, func(c *Conn, l *Line) {
		s.mu.Lock()
		s.registers++
		vAssert(c.Connected() || s.discEnter > 0, "Connected-true-in-REGISTER-handler")
		s.mu.Unlock()
	})
	conn.HandleFunc(CONNECTED, func(c *Conn, l *Line) {
		s.mu.Lock()
		s.connEnter++
		vAssert(c.Me().Nick == s.nick, "CONNECTED-after-welcome-applied")
		vAssert(s.lastSeq == 0, "CONNECTED-before-any-later-line")
		s.mu.Unlock()
		vYield()
		s.mu.Lock()
		vAssert(s.lastSeq == 0, "CONNECTED-before-any-later-line")
		s.connDone++
		s.mu.Unlock()
	})
	conn.HandleFunc(DISCONNECTED, func(c *Conn, l *Line) {
		s.mu.Lock()
		s.discEnter++
		vAssert(!c.Connected(), "Connected-false-in-DISCONNECTED-handler")
		vAssert(!s.anyActive(), "DISCONNECTED-only-after-fg-handlers-finished")
		s.mu.Unlock()
	})
	err := conn.ConnectContext(context.Background())
	vAssert(err == nil, "connect-ok")
	vAssert(s.registers == 1, "REGISTER-once-before-Connect-returns")
	early := vParam("EARLY", 0) == 1 || gated
	if !early {
		vRunPending() // everything the server sent is processed; the goroutines wait for more
		s.mu.Lock()
		nd := n // lines delivered so far
		if frag {
			nd = n - 1
		}
		for seq := 0; seq < nd; seq++ {
			for id := 0; id < 3; id++ {
				if id == 2 && s.panics {
					continue // a stuck background handler may leave its siblings of later lines unentered? no: checked below
				}
				vAssert(s.entered[[2]int{seq, id}] == 1, "every-handler-of-every-line-exactly-once")
			}
		}
		if s.kind == 0 {
			vAssert(s.connEnter == 1 && s.connDone == 1, "CONNECTED-once")
		}
		vAssert(s.recovered == s.panicked, "every-panic-reached-Recover")
		vAssert(s.discEnter == 0 && conn.Connected(), "still-connected")
		s.mu.Unlock()
	}
	var cw sync.WaitGroup
	endHi := 2
	if frag {
		endHi = 0 // (the other ways to end a session are the subject of the configurations without FRAG)
	}
	switch vLen("end", 0, endHi) {
	case 0: // the server closes the connection
		if frag {
			w.feedEOF(vScript[n-1])
		} else {
			w.Close()
		}
	case 1: // the user closes
		cw.Add(1)
		go func() { conn.Close(); cw.Done() }()
	case 2: // two user goroutines close while the server closes too
		cw.Add(2)
		go func() { conn.Close(); cw.Done() }()
		go func() { conn.Close(); cw.Done() }()
		if frag {
			w.feedEOF(vScript[n-1])
		} else {
			w.Close()
		}
	}
	vRunPending()
	if gated {
		// the disconnect is in progress but a foreground handler is still running
		s.mu.Lock()
		if s.anyActive() {
			vAssert(s.discEnter == 0, "DISCONNECTED-waits-for-running-fg-handler")
		}
		s.mu.Unlock()
	}
	close(s.gate)
	vRunPending()
	s.mu.Lock()
	// a background handler that never returns does not hold up the delivery of DISCONNECTED either
	vAssert(s.discEnter == 1, "DISCONNECTED-not-delayed-by-stuck-background-handler")
	s.mu.Unlock()
	close(s.never)
	vRunPending()
	s.mu.Lock()
	vAssert(s.discEnter == 1, "DISCONNECTED-exactly-once")
	vAssert(!conn.Connected(), "not-connected-at-the-end")
	vAssert(s.registers == 1, "REGISTER-exactly-once")
	vAssert(!s.anyActive(), "no-fg-handler-left-running")
	for k, cnt := range s.entered {
		vAssert(cnt == 1, "no-handler-entered-twice")
		_ = k
	}
	vAssert(s.recovered == s.panicked, "every-panic-reached-Recover")
	s.mu.Unlock()
	if b := vBlockedGo(); b >= 0 {
		vAssert(b == 0, "monitor:no-goroutine-left-behind")
	}
	vReach("end")
}

func vParamKinds() string {
	switch vParam("KINDS", 0) {
	case 1:
		return "yield lock"
	case 2:
		return "yield lock chan go wg"
	}
	return "yield"
}

// VerifC05Internal: with tracking enabled every state handler is found in the
// internal handler set and in neither user set (so "tracker update" means
// "internal phase" in the session harness).
func VerifC05Internal() {
	conn := vNewConn(true)
	for verb := range stHandlers {
		ev := vLowerStr(verb)
		vAssert(conn.intHandlers.set[ev] != nil, "state-handler-is-internal")
		vAssert(conn.fgHandlers.set[ev] == nil && conn.bgHandlers.set[ev] == nil, "state-handler-not-in-user-sets")
	}
	vReach("end")
}

// VerifC06WriteError: the connection ends through an error on the k-th socket
// write or through cancellation of the connect context; exactly one DISCONNECTED.
func VerifC06WriteError() {
	vSetOpt("schedExplore", 1)
	vSetOpt("maxSwitches", vParam("SW", 1))
	vYieldKinds("yield lock")
	w := vNewLiveWire(":srv 001 me :hi\r\n")
	d := &vDialer{wire: w}
	vInstallDialer(d)
	cfg := NewConfig("me")
	cfg.Server, cfg.Proxy, cfg.PingFreq, cfg.Flood = "srv:1", "vtest://p", 0, true
	conn := Client(cfg)
	disc, reg := 0, 0
	var mu sync.Mutex
	conn.HandleFunc(DISCONNECTED, func(c *Conn, l *Line) {
		mu.Lock()
		disc++
		vAssert(!c.Connected(), "Connected-false-in-DISCONNECTED-handler")
		mu.Unlock()
	})
	conn.HandleFunc(REGISTER, func(*Conn, *Line) { mu.Lock(); reg++; mu.Unlock() })
	ctx, cancel := context.WithCancel(context.Background())
	cause := vLen("cause", 0, 2)
	if cause == 0 {
		w.failWriteAt = vLen("failwrite", 0, 2)
	}
	err := conn.ConnectContext(ctx)
	vAssert(err == nil && reg == 1, "connect-ok")
	switch cause {
	case 0: // a write fails (NICK, USER, or a later line)
		conn.Raw("PING :x")
	case 1: // the context is cancelled
		cancel()
	case 2: // cancellation and a user Close together
		go conn.Close()
		cancel()
	}
	vRunPending()
	mu.Lock()
	vAssert(disc == 1, "DISCONNECTED-exactly-once")
	vAssert(!conn.Connected(), "not-connected-at-the-end")
	mu.Unlock()
	cancel()
	vReach("end")
}

type vErr struct{ msg string }

func (e vErr) Error() string { return e.msg }

// VerifC16Recover: hNode.Handle hands a panic of any kind to the configured
// recovery function and returns normally; the default logs one error.
func VerifC16Recover() {
	kind := vLen("panickind", 0, 3)
	// 0: the default recovery function; 1: a custom one configured before any handler is
	// registered; 2: configured on Config() after the handlers (the built-in ones too) are registered
	customWhen := vLen("customrecover", 0, 2)
	custom := customWhen > 0
	lg := &vLog{}
	logging.SetLogger(lg)
	conn := vNewConn(false)
	var gotConn *Conn
	var gotLine *Line
	calls := 0
	rec := func(c *Conn, l *Line) {
		if r := recover(); r != nil {
			calls++
			gotConn, gotLine = c, l
		}
	}
	if customWhen == 1 {
		conn.cfg.Recover = rec
	}
	after := 0
	conn.HandleFunc("ev", func(c *Conn, l *Line) {
		switch kind {
		case 0:
			panic("a string")
		case 1:
			panic(vErr{"an error"})
		case 2:
			var a []string
			_ = a[len(l.Args)+3] // a real runtime error
		case 3:
			panic(struct{ x int }{7})
		}
	})
	conn.HandleFunc("ev", func(c *Conn, l *Line) { after++ })
	conn.HandleFunc("next", func(c *Conn, l *Line) { after++ })
	if customWhen == 2 {
		conn.Config().Recover = rec
	}
	line := &Line{Cmd: "EV", Raw: "EV"}
	escaped := vPanics(func() { conn.dispatch(line); vRunPending() })
	vAssert(!escaped, "handle-returns-normally")
	if custom {
		vAssert(calls == 1 && gotConn == conn && gotLine != nil && gotLine.Cmd == "EV", "recover-called-with-conn-and-line")
	} else {
		vAssert(lg.errors >= 1, "default-logs-an-error")
	}
	// the same handler panics again for the next event: handed over / logged again
	errs1 := lg.errors
	escaped = vPanics(func() { conn.dispatch(&Line{Cmd: "EV", Raw: "EV"}); vRunPending() })
	vAssert(!escaped, "handle-returns-normally")
	if custom {
		vAssert(calls == 2, "every-panic-handed-to-the-configured-recover")
	} else {
		vAssert(lg.errors >= errs1+1, "default-logs-every-panic")
	}
	// a built-in handler panicking on a malformed line is recovered as well, by the same function
	errs2 := lg.errors
	escaped = vPanics(func() { conn.dispatch(ParseLine("PING")); vRunPending() })
	vAssert(!escaped, "builtin-handler-panic-recovered")
	escaped = vPanics(func() { conn.dispatch(ParseLine("PING")); vRunPending() })
	vAssert(!escaped, "builtin-handler-panic-recovered")
	if custom {
		vAssert(calls == 4, "every-panic-handed-to-the-configured-recover")
	} else {
		vAssert(lg.errors >= errs2+2, "default-logs-every-panic")
	}
	conn.dispatch(&Line{Cmd: "NEXT"})
	vRunPending()
	vAssert(after == 3, "later-handlers-still-run")
	vReach("end")
}

// vC16Bare: every verb with a built-in handler, without any parameter, from no
// source, the client itself, another user and the server - the lines on which a
// built-in handler is most likely to panic.
func vC16Bare() []string {
	var out []string
	for _, verb := range vC02Verbs() {
		for _, src := range []string{"", ":me!u@h ", ":n!u@h ", ":srv "} {
			out = append(out, src+verb)
		}
	}
	return out
}

// VerifC16Builtin: a built-in handler that panics (on a parameterless line for
// its verb) is recovered, leaves nothing behind that stops later events - a
// well-formed line for every built-in verb and a user event are still delivered -
// and the panic reaches the configured recovery function.
func VerifC16Builtin() {
	vSetOpt("deadlockIsViolation", 1)
	track := vLen("track", 0, 1) == 1
	conn := vNewConn(track)
	if track {
		conn.st.NewChannel("#c")
		conn.st.Associate("#c", "me")
		conn.st.NewNick("n")
		conn.st.Associate("#c", "n")
	}
	recovered := 0
	conn.cfg.Recover = func(c *Conn, l *Line) {
		if r := recover(); r != nil {
			recovered++
		}
	}
	bare := vC16Bare()
	raw := bare[vLen("bare", 0, len(bare)-1)]
	// no parameter at all, or one arbitrary ASCII byte as the only (middle or trailing) parameter
	if rest := vStr("rest", vLen("restlen", 0, 1)); len(rest) > 0 {
		vASCII(rest)
		vAssume(rest[0] != '\r' && rest[0] != '\n')
		raw += " " + rest
	}
	after := 0
	conn.HandleFunc("next", func(c *Conn, l *Line) { after++ })
	l := ParseLine(raw)
	vAssume(l != nil)
	escaped := vPanics(func() { conn.dispatch(l); vRunPending() })
	vAssert(!escaped, "builtin-handler-panic-recovered")
	for _, next := range vC02WellFormed {
		conn.dispatch(ParseLine(next))
		vRunPending()
	}
	_ = vDrain(conn)
	conn.dispatch(&Line{Cmd: "NEXT"})
	vRunPending()
	vAssert(after == 1, "later-handlers-still-run")
	vReach("end")
}

// VerifC16Background: a background handler that never returns does not delay
// foreground delivery, however many events pile up behind it.
func VerifC16Background() {
	conn := vNewConn(false)
	never := make(chan struct{})
	fg := 0
	conn.HandleBG("ev", HandlerFunc(func(*Conn, *Line) { <-never }))
	// the stuck event itself has 0..2 foreground handlers; a later, different event has one
	nfg := vLen("nfg", 0, 2)
	for i := 0; i < nfg; i++ {
		conn.HandleFunc("ev", func(*Conn, *Line) { fg++ })
	}
	later := 0
	conn.HandleFunc("later", func(*Conn, *Line) { later++ })
	n := vParam("EVENTS", 40)
	done := false
	go func() {
		for i := 0; i < n; i++ {
			conn.dispatch(&Line{Cmd: "EV"})
			conn.dispatch(&Line{Cmd: "LATER"})
		}
		done = true
	}()
	vRunPending()
	vAssert(done && fg == n*nfg && later == n, "foreground-not-delayed-by-stuck-background")
	close(never)
	vRunPending()
	vReach("end")
}

// VerifC06CancelDuringConnect: the connect context is cancelled between the
// successful dial and Connect's return. Whatever Connect reports, the events
// agree with it: an error means nothing fired and the client is not connected;
// success means REGISTER fired once and - the context being cancelled - exactly
// one DISCONNECTED follows.
func VerifC06CancelDuringConnect() {
	vSetOpt("schedExplore", 1)
	vSetOpt("maxSwitches", vParam("SW", 1))
	vYieldKinds("yield lock")
	w := vNewLiveWire()
	ctx, cancel := context.WithCancel(context.Background())
	d := &vDialer{wire: w, onDial: cancel}
	vInstallDialer(d)
	cfg := NewConfig("me")
	cfg.Server, cfg.Proxy, cfg.PingFreq, cfg.Flood = "srv:1", "vtest://p", 0, true
	conn := Client(cfg)
	var mu sync.Mutex
	disc, reg := 0, 0
	conn.HandleFunc(DISCONNECTED, func(*Conn, *Line) { mu.Lock(); disc++; mu.Unlock() })
	conn.HandleFunc(REGISTER, func(*Conn, *Line) { mu.Lock(); reg++; mu.Unlock() })
	err := conn.ConnectContext(ctx)
	vRunPending()
	mu.Lock()
	if err != nil {
		vAssert(reg == 0 && disc == 0, "failed-connect-fires-nothing")
		vAssert(!conn.Connected(), "failed-connect-not-connected")
	} else {
		vAssert(reg == 1, "REGISTER-exactly-once")
		vAssert(disc == 1, "DISCONNECTED-exactly-once")
		vAssert(!conn.Connected(), "not-connected-at-the-end")
	}
	mu.Unlock()
	vReach("end")
}

// VerifC03Burst: one line whose foreground handler is held back by the harness,
// then LINES more lines arriving in a single read - more than the client's
// internal queue holds - and only then is the handler released: every line is
// still delivered exactly once, in wire order, one at a time. The digit of the
// first line and the delay-bounded goroutine schedule are the inputs.
func VerifC03Burst() {
	vSetOpt("schedExplore", 1)
	vSetOpt("maxSwitches", vParam("SW", 1))
	vYieldKinds(vParamKinds())
	vSetOpt("deadlockIsViolation", 1)
	n := vParam("LINES", 40)
	tag := vStr("tag", 1)
	vAssume(tag[0]-'a' < 26)
	text := func(i int) string { return string([]byte{tag[0], byte('A' + i/26), byte('a' + i%26)}) }
	first := ":u!i@h PRIVMSG #c :" + text(0) + "\r\n"
	rest := ""
	for i := 1; i <= n; i++ {
		rest += ":u!i@h PRIVMSG #c :" + text(i) + "\r\n"
	}
	w := vNewLiveWire(first, rest)
	vInstallDialer(&vDialer{wire: w})
	cfg := NewConfig("me")
	cfg.Server, cfg.Proxy, cfg.PingFreq, cfg.Flood = "srv:1", "vtest://p", 0, true
	conn := Client(cfg)
	var mu sync.Mutex
	var order []string
	active := 0
	gate := make(chan struct{})
	conn.HandleFunc("PRIVMSG", func(c *Conn, l *Line) {
		mu.Lock()
		vAssert(active == 0, "fg-handlers-of-different-lines-never-overlap")
		active++
		order = append(order, l.Text())
		isFirst := len(order) == 1
		mu.Unlock()
		if isFirst {
			<-gate
		}
		mu.Lock()
		active--
		mu.Unlock()
	})
	err := conn.ConnectContext(context.Background())
	vAssert(err == nil, "connect-ok")
	vRunPending() // the first handler is held; the reader has taken in as much as the client lets it
	close(gate)
	vRunPending()
	mu.Lock()
	vAssert(len(order) == n+1, "burst:every-line-delivered-once")
	for i := range order {
		if i <= n {
			vAssert(order[i] == text(i), "burst:delivered-in-wire-order")
		}
	}
	mu.Unlock()
	conn.Close()
	vRunPending()
	vReach("end")
}
