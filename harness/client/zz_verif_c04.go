//go:build verif

package client

import "sync"

// vC04Quiet: handler bodies switch the lock monitor off around their own bookkeeping.
var vC04Quiet bool

type vH struct {
	id    int
	calls *[]int
	mu    *sync.Mutex
	act   func(id int)
	wait  <-chan struct{} // if set: this handler starts only once the channel is closed (pins the native goroutine order)
}

func (h *vH) Handle(c *Conn, l *Line) {
	if h.wait != nil {
		<-h.wait
	}
	if vC04Quiet {
		vWatchOn(false) // the handler's own bookkeeping is not the set's business
	}
	h.mu.Lock()
	*h.calls = append(*h.calls, h.id)
	h.mu.Unlock()
	if vC04Quiet {
		vWatchOn(true)
	}
	if h.act != nil {
		h.act(h.id)
	}
}

// vListInv: the representation invariant of one handler set.
func vListInv(hs *hSet) bool {
	for ev, l := range hs.set {
		if l == nil || l.start == nil || l.end == nil {
			return false
		}
		if l.start.prev != nil || l.end.next != nil {
			return false
		}
		n := 0
		var prev *hNode
		for hn := l.start; hn != nil; hn = hn.next {
			if hn.prev != prev || hn.set != hs || hn.event != ev || hn.handler == nil {
				return false
			}
			prev = hn
			n++
			if n > 16 {
				return false
			}
		}
		if prev != l.end {
			return false
		}
	}
	return true
}

// vAbs: abstraction of a handler set: for a lower-case name the ids in list order.
func vAbs(hs *hSet, name string) []int {
	var ids []int
	l, ok := hs.set[name]
	if !ok {
		return nil
	}
	for hn := l.start; hn != nil; hn = hn.next {
		ids = append(ids, hn.handler.(*vH).id)
	}
	return ids
}

func vSameInts(a, b []int) bool {
	if len(a) != len(b) {
		return false
	}
	for i := range a {
		if a[i] != b[i] {
			return false
		}
	}
	return true
}

func vLowerStr(s string) string {
	out := make([]byte, len(s))
	for i := 0; i < len(s); i++ {
		d := byte(0)
		if s[i]-'A' < 26 {
			d = 32
		}
		out[i] = s[i] + d
	}
	return string(out)
}

// vBuildSet builds a handler set directly (not through add): names[i] has cnt[i] nodes.
func vBuildSet(names []string, cnt []int, calls *[]int, mu *sync.Mutex) (*hSet, [][]*hNode) {
	hs := &hSet{set: map[string]*hList{}}
	var all [][]*hNode
	id := 0
	for i, name := range names {
		var nodes []*hNode
		if cnt[i] > 0 {
			l := &hList{}
			for k := 0; k < cnt[i]; k++ {
				hn := &hNode{set: hs, event: name, handler: &vH{id: id, calls: calls, mu: mu}}
				id++
				if l.end == nil {
					l.start = hn
				} else {
					hn.prev = l.end
					l.end.next = hn
				}
				l.end = hn
				nodes = append(nodes, hn)
			}
			hs.set[name] = l
		}
		all = append(all, nodes)
	}
	return hs, all
}

func vGenNames() ([]string, []int) {
	n0 := vStr("name0", vLen("name0len", 1, 2))
	n1 := vStr("name1", vLen("name1len", 1, 2))
	for i := 0; i < len(n0); i++ {
		vAssume(n0[i] < 0x80 && n0[i]-'A' >= 26) // lower-cased keys; any other ASCII byte
	}
	for i := 0; i < len(n1); i++ {
		vAssume(n1[i] < 0x80 && n1[i]-'A' >= 26)
	}
	vAssume(n0 != n1)
	mx := vParam("N", 3)
	return []string{n0, n1}, []int{vLen("cnt0", 0, mx), vLen("cnt1", 0, mx)}
}

// VerifC04Step: one add / remove / getHandlers from ANY well-formed handler
// set (an inductive step, so histories of any length are covered): the list
// invariant is kept, the abstract contents change exactly as the sequence
// model says, names compare case-insensitively, each operation is a single
// critical section of the set's lock with every map access / node store inside it.
func VerifC04Step() {
	vC04Quiet = false
	var calls []int
	var mu sync.Mutex
	names, cnt := vGenNames()
	hs, nodes := vBuildSet(names, cnt, &calls, &mu)
	vAssert(vListInv(hs), "pre-invariant")
	before := [][]int{vAbs(hs, names[0]), vAbs(hs, names[1])}
	vWatch(hs, &hs.RWMutex)
	acq := vLockAcquires(&hs.RWMutex)
	switch vLen("op", 0, 2) {
	case 0: // add under a name in any letter case, possibly a third name
		which := vLen("addwhich", 0, 2)
		var nm string
		if which < 2 {
			raw := vStr("addname", len(names[which]))
			vASCII(raw)
			vAssume(vLowerStr(raw) == names[which])
			nm = raw
		} else {
			nm = vStr("fresh", 1)
			vASCII(nm)
			vAssume(vLowerStr(nm) != names[0] && vLowerStr(nm) != names[1])
		}
		h := &vH{id: 99, calls: &calls, mu: &mu}
		vWatchOn(true)
		rem := hs.add(nm, h)
		vWatchOn(false)
		vAssert(rem != nil, "add-returns-remover")
		for i := 0; i < 2; i++ {
			want := before[i]
			if which == i {
				want = append(append([]int{}, before[i]...), 99)
			}
			vAssert(vSameInts(vAbs(hs, names[i]), want), "add-model")
		}
		if which == 2 {
			vAssert(vSameInts(vAbs(hs, vLowerStr(nm)), []int{99}), "add-model")
		}
	case 1: // remove any node
		which := vLen("rmlist", 0, 1)
		vAssume(len(nodes[which]) > 0)
		k := vLen("rmidx", 0, len(nodes[which])-1)
		vWatchOn(true)
		nodes[which][k].Remove()
		vWatchOn(false)
		for i := 0; i < 2; i++ {
			want := before[i]
			if which == i {
				want = append(append([]int{}, before[i][:k]...), before[i][k+1:]...)
			}
			vAssert(vSameInts(vAbs(hs, names[i]), want), "remove-model")
		}
		_, still := hs.set[names[which]]
		vAssert(still == (len(nodes[which]) > 1), "empty-list-dropped")
	case 2: // snapshot
		which := vLen("getwhich", 0, 2)
		nm := "zz~"
		if which < 2 {
			nm = names[which]
		} else {
			vAssume(nm != names[0] && nm != names[1])
		}
		// the snapshot is observed the way a client observes it: dispatch an event of that
		// name and see which handlers run (each exactly once, nothing else)
		calls = nil
		vC04Quiet = true
		vWatchOn(true)
		hs.dispatch(&Conn{cfg: NewConfig("me")}, &Line{Cmd: nm})
		vWatchOn(false)
		vC04Quiet = false
		vRunPending()
		mu.Lock()
		ids := append([]int(nil), calls...)
		mu.Unlock()
		want := []int(nil)
		if which < 2 {
			want = before[which]
		}
		vAssert(len(ids) == len(want), "snapshot-model")
		for _, id := range want {
			n := 0
			for _, c := range ids {
				if c == id {
					n++
				}
			}
			vAssert(n == 1, "snapshot-model")
		}
		vAssert(vSameInts(vAbs(hs, names[0]), before[0]) && vSameInts(vAbs(hs, names[1]), before[1]), "snapshot-pure")
	}
	vAssert(vListInv(hs), "post-invariant")
	vAssert(vEventCount("unguarded") == 0, "monitor:all-accesses-under-lock")
	vAssert(vLockAcquires(&hs.RWMutex) == acq+1, "one-critical-section")
	vAssert(!vLockHeld(&hs.RWMutex), "lock-released")
	vReach("end")
}

// VerifC04Dispatch: the real dispatch on an arbitrary set: every handler
// registered under the event's name (compared case-insensitively) runs exactly
// once, nothing else runs, and handlers that remove themselves / a sibling or
// register new handlers from inside neither deadlock nor disturb the others.
func VerifC04Dispatch() {
	vSetOpt("deadlockIsViolation", 1) // "registering or removing handlers from within a handler neither deadlocks ..."
	var calls []int
	var mu sync.Mutex
	names, cnt := vGenNames()
	hs, nodes := vBuildSet(names, cnt, &calls, &mu)
	conn := &Conn{cfg: NewConfig("me"), fgHandlers: hs, intHandlers: handlerSet(), bgHandlers: handlerSet()}
	act := vLen("act", 0, 3)
	lateRan := 0
	if len(nodes[0]) > 0 {
		first := nodes[0][0].handler.(*vH)
		switch act {
		case 1: // self-removal
			first.act = func(int) { nodes[0][0].Remove() }
		case 2: // remove the last sibling
			first.act = func(int) { nodes[0][len(nodes[0])-1].Remove() }
		case 3: // register more handlers from inside
			first.act = func(int) {
				conn.HandleFunc(names[0], func(*Conn, *Line) { lateRan++ })
				conn.HandleBG(names[1], HandlerFunc(func(*Conn, *Line) { lateRan++ }))
			}
		}
		if act != 0 {
			// the handlers of one event run concurrently; let the acting one finish first, so that what it
			// does to its siblings happens before they run, in the executor and natively alike
			acted := make(chan struct{})
			for _, hn := range nodes[0][1:] {
				hn.handler.(*vH).wait = acted
			}
			inner := first.act
			first.act = func(id int) { inner(id); close(acted) }
		}
	}
	// the event's verb in any letter case
	raw := vStr("cmd", len(names[0]))
	vASCII(raw)
	vAssume(vLowerStr(raw) == names[0])
	want := vAbs(hs, names[0])
	conn.dispatch(&Line{Cmd: raw})
	vRunPending()
	vAssert(len(calls) == len(want), "ran-exactly-the-registered-count")
	for _, id := range want {
		n := 0
		for _, c := range calls {
			if c == id {
				n++
			}
		}
		vAssert(n == 1, "each-once")
	}
	vAssert(lateRan == 0, "late-registration-not-run-for-this-event")
	vAssert(vListInv(hs), "post-invariant")
	vAssert(!vLockHeld(&hs.RWMutex), "lock-released")
	if act == 3 && len(nodes[0]) > 0 {
		// the handler registered from inside sees the next event
		calls = nil
		conn.dispatch(&Line{Cmd: names[0]})
		vRunPending()
		vAssert(lateRan == 1, "late-registration-runs-next-time")
	}
	vReach("end")
}

// VerifC04History: every sequence of K operations from {register a foreground
// handler, register a background handler, remove the oldest / newest live
// handler, dispatch the event spelled in upper / lower / mixed case} on one
// event name, starting from an empty client: after every dispatch each live
// handler has run exactly once more and no removed handler has run. (The
// inductive step above starts from arbitrary *well-formed list* states; this one
// also covers state the list invariant does not mention, e.g. caches.)
func VerifC04History() {
	K := vParam("K", 4)
	conn := &Conn{cfg: NewConfig("me"), fgHandlers: handlerSet(), intHandlers: handlerSet(), bgHandlers: handlerSet()}
	name := "ev" + vStr("namebyte", 1)
	vAssume(name[2] < 0x80 && (name[2]|0x20)-'a' < 26) // a letter, either case
	upper, lower := vUpStr(name), vLowerStr(name)
	type reg struct {
		rem   Remover
		id    int
		live  bool
		count int
		want  int
	}
	var regs []*reg
	var mu sync.Mutex
	for step := 0; step < K; step++ {
		op := vLen("op"+vItoa(step), 0, 7)
		switch op {
		case 0, 1, 2, 3: // register foreground / background under the lower- or upper-case spelling
			r := &reg{id: len(regs), live: true}
			h := HandlerFunc(func(*Conn, *Line) { mu.Lock(); r.count++; mu.Unlock() })
			spell := []string{lower, upper}[op%2]
			if op >= 2 {
				r.rem = conn.HandleBG(spell, h)
			} else {
				r.rem = conn.HandleFunc(spell, h)
			}
			regs = append(regs, r)
		case 4: // remove the oldest live handler
			for _, r := range regs {
				if r.live {
					r.rem.Remove()
					r.live = false
					break
				}
			}
		case 5: // remove the newest live handler
			for i := len(regs) - 1; i >= 0; i-- {
				if regs[i].live {
					regs[i].rem.Remove()
					regs[i].live = false
					break
				}
			}
		default: // dispatch, spelled in upper case or as registered
			spell := []string{upper, name}[op%2]
			for _, r := range regs {
				if r.live {
					r.want++
				}
			}
			conn.dispatch(&Line{Cmd: spell, Raw: spell})
			vRunPending()
			mu.Lock()
			for _, r := range regs {
				vAssert(r.count == r.want, "history:each-live-handler-once-removed-never")
			}
			mu.Unlock()
		}
	}
	vReach("end")
}

// VerifC04Many: long handler lists. M handlers (M around the powers of two an
// implementation might batch or cap by) registered for one event in the foreground
// or the background set through the public API; one of them (any position) removes
// itself, or registers a further handler for the same event, while the event is being
// handled. Every handler registered when the event was dispatched runs exactly once
// for it, the one registered from inside does not; at the next event the removed one
// is gone and the late one runs.
func VerifC04Many() {
	vSetOpt("deadlockIsViolation", 1)
	sizes := []int{7, 8, 9, 15, 16, 17, 31, 32, 33, 64, 65}
	M := sizes[vLen("size", 0, vParam("SIZES", len(sizes))-1)]
	conn := &Conn{cfg: NewConfig("me"), fgHandlers: handlerSet(), intHandlers: handlerSet(), bgHandlers: handlerSet()}
	bg := vLen("bg", 0, 1) == 1
	reg := func(name string, h Handler) Remover {
		if bg {
			return conn.HandleBG(name, h)
		}
		return conn.Handle(name, h)
	}
	counts := make([]int, M)
	rems := make([]Remover, M)
	actor := vLen("actor", 0, M-1)
	act := vLen("act", 0, 2) // 0: nothing, 1: self-removal, 2: registration from inside
	late := 0
	var mu sync.Mutex
	for i := 0; i < M; i++ {
		i := i
		rems[i] = reg("ev", HandlerFunc(func(c *Conn, l *Line) {
			mu.Lock()
			counts[i]++
			first := counts[i] == 1
			mu.Unlock()
			if i == actor && first {
				switch act {
				case 1:
					rems[i].Remove()
				case 2:
					reg("EV", HandlerFunc(func(*Conn, *Line) { mu.Lock(); late++; mu.Unlock() }))
				}
			}
		}))
	}
	conn.dispatch(&Line{Cmd: "EV", Raw: "EV"})
	vRunPending()
	mu.Lock()
	for i := 0; i < M; i++ {
		vAssert(counts[i] == 1, "many:each-registered-handler-once")
	}
	vAssert(late == 0, "many:late-registration-not-run-for-this-event")
	mu.Unlock()
	conn.dispatch(&Line{Cmd: "Ev", Raw: "Ev"})
	vRunPending()
	mu.Lock()
	for i := 0; i < M; i++ {
		want := 2
		if i == actor && act == 1 {
			want = 1
		}
		vAssert(counts[i] == want, "many:next-event-each-live-handler-once-removed-never")
	}
	if act == 2 {
		vAssert(late == 1, "many:late-registration-runs-next-time")
	} else {
		vAssert(late == 0, "many:late-registration-runs-next-time")
	}
	mu.Unlock()
	vReach("end")
}
