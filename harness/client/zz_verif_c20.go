//go:build verif

package client

import (
	"context"
	"sync"

	"github.com/fluffle/goirc/logging"
)

// vLog captures everything the library hands to the logger.
type vLog struct {
	mu     sync.Mutex
	recs   []string // every format string and every string / error argument
	errors int      // Error-level calls
}

func (l *vLog) add(f string, a []interface{}) {
	l.mu.Lock()
	defer l.mu.Unlock()
	l.recs = append(l.recs, f)
	for _, x := range a {
		switch v := x.(type) {
		case string:
			l.recs = append(l.recs, v)
		case error:
			l.recs = append(l.recs, v.Error())
		}
	}
}

func (l *vLog) Debug(f string, a ...interface{}) { l.add(f, a) }
func (l *vLog) Info(f string, a ...interface{})  { l.add(f, a) }
func (l *vLog) Warn(f string, a ...interface{})  { l.add(f, a) }
func (l *vLog) Error(f string, a ...interface{}) {
	l.mu.Lock()
	l.errors++
	l.mu.Unlock()
	l.add(f, a)
}

func vContains(s, sub string) bool {
	found := false
	for i := 0; i+len(sub) <= len(s); i++ {
		found = found || s[i:i+len(sub)] == sub
	}
	return found
}

// VerifC20Password: through a whole session (connect ok / refused, negotiation
// and tracking on / off, the PASS line written or its write failing, lines
// received, disconnect) nothing handed to the logger contains the password;
// the PASS line appears only masked.
// vC20Caps: the capabilities a server in common use offers (the client asks for those it wants).
const vC20Caps = "account-notify account-tag away-notify batch cap-notify chghost echo-message extended-join invite-notify labeled-response message-tags multi-prefix server-time setname userhost-in-names"

func VerifC20Password() {
	lg := &vLog{}
	logging.SetLogger(lg)
	n := vLen("pwlen", 1, vParam("PL", 2))
	sym := vStr("pw", n)
	for i := 0; i < n; i++ {
		b := sym[i]
		// an alphabet disjoint from the library's own log texts ("USER ident 12 * :...", "%.2f") and from the other configured strings
		// (a space too, but not in first position: a password that is a space occurs in every record)
		sp := byte(' ')
		if i == 0 {
			sp = '5'
		}
		vAssume(b-'5' < 5 || b == '#' || b == '$' || b == '~' || b == '^' || b == '_' || b == '=' || b == '+' || b == '?' || b == sp)
	}
	pw := sym
	if vParam("LONG", 0) == 1 {
		fill := make([]byte, 520)
		for i := range fill {
			fill[i] = '0'
		}
		pw = string(fill) + sym
	}
	cfg := NewConfig("me", "ident", "Real Name")
	cfg.Pass = pw
	cfg.Server = "srv:port"
	cfg.Proxy = "vtest://proxy"
	cfg.PingFreq = 0
	cfg.Flood = true // flood control is C10's subject; its clock arithmetic only slows the solver here
	cfg.EnableCapabilityNegotiation = vLen("capneg", 0, 1) == 1
	rounds := vParam("R", 1)
	failAt := vLen("failwrite", 0, 4) - 1
	d := &vDialer{fail: vLen("dialfails", 0, 1) == 1}
	slow := vLen("slowpeer", 0, 1) == 1 // the peer starts reading only after Connect has returned
	// what the server says: a plain welcome; a nick collision before the welcome; a capability
	// negotiation in which it offers and acknowledges the IRCv3 capabilities in common use
	script := vLen("script", 0, 2)
	for r := 0; r < rounds; r++ {
		var w *vWire
		switch script {
		case 0:
			w = vNewLiveWire(":srv NOTICE * :hello\r\n", ":srv 001 me :welcome\r\n", "garbage \r\n")
		case 1:
			w = vNewLiveWire(":srv 433 * me :Nickname is already in use\r\n", ":srv 001 mf :welcome\r\n", ":mf!ident@h NICK me\r\n")
		default:
			w = vNewLiveWire(":srv CAP * LS :"+vC20Caps+"\r\n", ":srv CAP me ACK :"+vC20Caps+"\r\n", ":srv 001 me :welcome\r\n", ":srv CAP me NEW :"+vC20Caps+"\r\n")
		}
		w.failWriteAt = failAt
		if slow {
			w.writeGate = make(chan struct{}, 64)
		}
		d.wires = append(d.wires, w)
	}
	vInstallDialer(d)
	conn := Client(cfg)
	if vLen("track", 0, 1) == 1 {
		conn.EnableStateTracking()
	}
	// the application may wipe or replace Config.Pass once registration has been triggered
	switch vLen("wipe", 0, 2) {
	case 1:
		conn.HandleFunc(REGISTER, func(c *Conn, l *Line) { c.Config().Pass = "" })
	case 2:
		conn.HandleFunc(REGISTER, func(c *Conn, l *Line) { c.Config().Pass = "other" })
	}
	// one or several sessions on the same client (connect, be welcomed, disconnect, connect again)
	for r := 0; r < rounds; r++ {
		_ = conn.ConnectContext(context.Background())
		vRunPending()
		if slow {
			for i := 0; i < 64; i++ {
				d.wires[r].writeGate <- struct{}{}
			}
			vRunPending()
		}
		conn.Close()
		vRunPending()
	}
	lg.mu.Lock()
	recs := lg.recs
	lg.mu.Unlock()
	masked := 0
	for _, r := range recs {
		vAssert(!vContains(r, sym), "password-not-in-log")
		if len(r) >= 4 && r[:4] == "PASS" {
			vAssert(r == "PASS **************", "pass-line-masked")
			masked++
		}
	}
	if !d.fail && failAt < 0 && masked > 0 {
		vReach("masked-pass-line-seen") // (on the current tree the masked line is logged; not required by the property)
	}
	vAssert(len(recs) > 0, "something-was-logged")
	vReach("end")
}
