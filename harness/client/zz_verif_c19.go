//go:build verif

package client

import (
	"encoding/base64"
	"sort"
	"strings"

	sasl "github.com/emersion/go-sasl"
)

func vGenCap(name string) string {
	s := vStr(name, vLen(name+"len", 1, 2))
	for i := 0; i < len(s); i++ {
		b := s[i]
		vAssume(b < 0x80 && b != 0 && b != ' ' && b-9 >= 5 && b != ':' && b != '-')
	}
	vAssume(s != "sasl")
	return s
}

func vFeed(conn *Conn, raw string) []string {
	l := ParseLine(raw)
	vAssume(l != nil)
	conn.dispatch(l)
	vRunPending()
	return vDrain(conn)
}

// VerifC19Negotiation: a whole negotiation over a universe of two symbolic
// capability names plus sasl, every subset wanted / advertised / acknowledged.
func VerifC19Negotiation() {
	c1, c2 := vGenCap("cap1"), vGenCap("cap2")
	vAssume(c1 != c2)
	uni := []string{c1, c2, "sasl"}
	wanted := []bool{vLen("want1", 0, 1) == 1, vLen("want2", 0, 1) == 1, false}
	adv := []bool{vLen("adv1", 0, 1) == 1, vLen("adv2", 0, 1) == 1, vLen("advsasl", 0, 1) == 1}
	mech := vLen("sasl", 0, 2) // 0 none, 1 PLAIN, 2 EXTERNAL
	cfg := NewConfig("me")
	cfg.EnableCapabilityNegotiation = true
	for i := 0; i < 2; i++ {
		if wanted[i] {
			cfg.Capabilites = append(cfg.Capabilites, uni[i])
		}
	}
	var wantIR []byte
	switch mech {
	case 1:
		user, pass := vStr("user", vLen("userlen", 0, 1)), vStr("pw", vLen("pwlen", 0, 1))
		cfg.Sasl = sasl.NewPlainClient("", user, pass)
		wantIR = []byte("\x00" + user + "\x00" + pass)
		wanted[2] = true
	case 2:
		id := vStr("ident", vLen("identlen", 0, 1))
		cfg.Sasl = sasl.NewExternalClient(id)
		wantIR = []byte(id)
		wanted[2] = true
	}
	conn := Client(cfg)
	conn.initialise()
	conn.out = make(chan string, 32)
	// --- LS
	var advList, req []string
	for i := range uni {
		if adv[i] {
			advList = append(advList, uni[i])
			if wanted[i] {
				req = append(req, uni[i])
			}
		}
	}
	got := vFeed(conn, ":srv CAP * LS :"+strings.Join(advList, " "))
	vObserve("after-ls", strings.Join(got, "\x00"))
	for i := range uni {
		vAssert(conn.SupportsCapability(uni[i]) == adv[i], "supports-iff-advertised")
	}
	if len(req) == 0 {
		vAssert(len(got) == 1 && got[0] == "CAP END", "end-on-empty-intersection")
		vReach("end")
		return
	}
	sort.Strings(req)
	vAssert(len(got) == 1 && got[0] == "CAP REQ :"+strings.Join(req, " "), "requests-exactly-wanted-and-advertised")
	// --- ACK of a subset / NAK
	if vLen("nak", 0, 1) == 1 {
		got = vFeed(conn, ":srv CAP * NAK :"+strings.Join(req, " "))
		vAssert(len(got) == 1 && got[0] == "CAP END", "end-after-nak")
		for i := range uni {
			vAssert(!conn.HasCapability(uni[i]), "nothing-held-after-nak")
		}
		vReach("end")
		return
	}
	var acked []string
	held := map[string]bool{}
	for i, c := range req {
		if vLen("ack"+string([]byte{byte('0' + i)}), 0, 1) == 1 {
			acked = append(acked, c)
			held[c] = true
		}
	}
	got = vFeed(conn, ":srv CAP * ACK :"+strings.Join(acked, " "))
	for _, c := range uni {
		vAssert(conn.HasCapability(c) == held[c], "held-iff-acked")
	}
	if !(held["sasl"] && mech != 0) {
		vAssert(len(got) == 1 && got[0] == "CAP END", "end-after-ack-without-sasl")
		// a later ACK that takes a capability away
		if len(acked) > 0 {
			got = vFeed(conn, ":srv CAP * ACK :-"+acked[0])
			vAssert(!conn.HasCapability(acked[0]), "not-held-after-minus-ack")
			vAssert(len(got) == 1 && got[0] == "CAP END", "end-after-later-ack")
		}
		vReach("end")
		return
	}
	// --- SASL
	mechName := "PLAIN"
	if mech == 2 {
		mechName = "EXTERNAL"
	}
	vAssert(len(got) == 1 && got[0] == "AUTHENTICATE "+mechName, "sasl-starts-after-ack-only")
	got = vFeed(conn, "AUTHENTICATE +")
	payload := "+"
	if len(wantIR) > 0 {
		payload = base64.StdEncoding.EncodeToString(wantIR)
	}
	vAssert(len(got) == 1 && got[0] == "AUTHENTICATE "+payload, "sasl-payload-after-server-asked")
	num := []string{"903", "904", "908"}[vLen("outcome", 0, 2)]
	got = vFeed(conn, ":srv "+num+" me PLAIN,EXTERNAL :sasl outcome")
	vAssert(len(got) == 1 && got[0] == "CAP END", "end-after-sasl-outcome")
	// a later ACK that does not mention sasl must not restart authentication
	if vLen("later", 0, 1) == 1 {
		got = vFeed(conn, ":srv CAP * ACK :-"+c1)
		vAssert(len(got) == 1 && got[0] == "CAP END", "end-after-later-ack")
	}
	vReach("end")
}

// VerifC19History: any sequence of K later server replies - ACKs naming any
// subset of two capabilities, each plain or with the '-' prefix, and NAKs of any
// subset - against a plain model: a capability is held exactly when the latest
// ACK that named it enabled it (a NAK changes nothing), and every reply is
// answered by exactly one CAP END.
func VerifC19History() {
	c1, c2 := vGenCap("cap1"), vGenCap("cap2")
	vAssume(c1 != c2)
	uni := []string{c1, c2}
	cfg := NewConfig("me")
	cfg.EnableCapabilityNegotiation = true
	cfg.Capabilites = []string{c1, c2}
	withSasl := vParam("SASL", 0) == 1
	if withSasl {
		// SASL is configured but the server never offers it; it may still name it with '-'
		cfg.Sasl = sasl.NewPlainClient("", "u", "p")
		uni = append(uni, "sasl")
	}
	conn := Client(cfg)
	conn.initialise()
	conn.out = make(chan string, 32)
	got := vFeed(conn, ":srv CAP * LS :"+c1+" "+c2)
	vAssert(len(got) == 1, "requests-exactly-wanted-and-advertised")
	held := map[string]bool{}
	K := vParam("K", 2)
	authAt := 0 // the server asks for authentication data: never / right after LS / after the last reply
	if withSasl && vParam("AUTH", 0) == 1 {
		authAt = vLen("authat", 1, 2)
	}
	for e := 0; e <= K; e++ {
		es := string([]byte{byte('0' + e)})
		if withSasl && ((e == 0 && authAt == 1) || (e == K && authAt == 2)) {
			// the server asks for authentication data although it never acknowledged sasl:
			// nothing may be sent (SASL data only after sasl was acknowledged and asked for)
			got = vFeed(conn, "AUTHENTICATE +")
			vAssert(len(got) == 0, "no-sasl-data-without-acknowledged-sasl")
		}
		if e == K {
			break
		}
		nak := vLen("nak"+es, 0, 1) == 1
		var names []string
		for i, c := range uni {
			is := es + string([]byte{byte('a' + i)})
			hi := 2
			if nak {
				hi = 1
			}
			m := vLen("mention"+is, 0, hi)
			if c == "sasl" && m == 1 {
				m = 2 // (sasl is only ever taken away here; offering it starts authentication, which VerifC19Negotiation covers)
				if nak {
					m = 0
				}
			}
			switch m {
			case 1:
				names = append(names, c)
				if !nak {
					held[c] = true
				}
			case 2:
				names = append(names, "-"+c)
				held[c] = false
			}
		}
		if vLen("swap"+es, 0, 1) == 1 && len(names) >= 2 {
			names[0], names[1] = names[1], names[0]
		}
		verb := "ACK"
		if nak {
			verb = "NAK"
		}
		got = vFeed(conn, ":srv CAP * "+verb+" :"+strings.Join(names, " "))
		vAssert(len(got) == 1 && got[0] == "CAP END", "end-after-every-reply")
		for _, c := range uni {
			vAssert(conn.HasCapability(c) == held[c], "held-iff-latest-ack-enabled")
		}
	}
	vReach("end")
}

// VerifC19Split: a request too long for one line is split into several CAP REQ
// lines, each name exactly once, in order, no line over the limit.
func VerifC19Split() {
	conn := vNewConn(false)
	mk := func(name string, n int) string {
		b := make([]byte, n-1)
		for i := range b {
			b[i] = 'c'
		}
		last := vStr(name, 1)
		vAssume(last[0] < 0x80 && last[0] != ' ' && last[0] != '\r' && last[0] != '\n' && last[0] != 0)
		return string(b) + last
	}
	l1 := 220
	l2 := vLen("len2", 216, 224)
	names := []string{mk("n1", l1), mk("n2", l2), mk("n3", vLen("len3", 1, 3)), mk("n4", 440)}
	conn.Cap(CAP_REQ, names...)
	got := vDrain(conn)
	var all []string
	for _, g := range got {
		ok := len(g) > 9 && g[:9] == "CAP REQ :"
		vAssert(ok, "split-line-prefix")
		if !ok {
			return
		}
		part := strings.Split(g[9:], " ")
		vAssert(len(g)-9 < 450-9 || len(part) == 1, "split-line-within-limit")
		all = append(all, part...)
	}
	vAssert(len(all) == len(names), "split-every-name-once")
	if len(all) == len(names) {
		for i := range names {
			vAssert(all[i] == names[i], "split-names-intact-in-order")
		}
	}
	vReach("end")
}

// VerifC19Reconnect: several connections in a row on one client, each through the real
// Connect (stub dialler), recv, runLoop, send. On every connection the negotiation is
// started once and ended once, whatever the previous connection went through (welcome
// included): only the server end of each wire is looked at.
func VerifC19Reconnect() {
	c1 := vGenCap("cap1")
	cfg := NewConfig("me")
	cfg.EnableCapabilityNegotiation = true
	cfg.Capabilites = []string{c1}
	cfg.Server, cfg.Proxy, cfg.PingFreq, cfg.Flood = "srv:1", "vtest://p", 0, true
	withSasl := vLen("sasl", 0, 1) == 1
	if withSasl {
		cfg.Sasl = sasl.NewPlainClient("", "u", "p")
	}
	rounds := vParam("R", 2)
	d := &vDialer{}
	for r := 0; r < rounds; r++ {
		rs := string([]byte{byte('0' + r)})
		hi := 2
		if withSasl {
			hi = 3
		}
		var lines []string
		switch vLen("reply"+rs, 0, hi) {
		case 0:
			lines = []string{":srv CAP * LS :" + c1, ":srv CAP me ACK :" + c1}
		case 1:
			lines = []string{":srv CAP * LS :" + c1, ":srv CAP me NAK :" + c1}
		case 2:
			lines = []string{":srv CAP * LS :unwanted-thing"}
		case 3:
			lines = []string{":srv CAP * LS :" + c1 + " sasl", ":srv CAP me ACK :" + c1 + " sasl", "AUTHENTICATE +", ":srv 903 me :SASL authentication successful"}
		}
		lines = append(lines, ":srv 001 me :Welcome", ":srv 005 me X=Y :are supported")
		stream := ""
		for _, l := range lines {
			stream += l + "\r\n"
		}
		d.wires = append(d.wires, vNewLiveWire(stream))
	}
	vInstallDialer(d)
	conn := Client(cfg)
	if vLen("track", 0, 1) == 1 {
		conn.EnableStateTracking()
	}
	for r := 0; r < rounds; r++ {
		err := conn.Connect()
		vAssume(err == nil)
		vRunPending()
		ls, end := 0, 0
		for _, x := range d.wires[r].written {
			if x == "CAP LS\r\n" {
				ls++
			}
			if x == "CAP END\r\n" {
				end++
			}
		}
		vAssert(ls == 1, "reconnect:negotiation-started-once-per-connection")
		vAssert(end == 1, "reconnect:negotiation-ended-once-per-connection")
		conn.Close()
		vRunPending()
	}
	vReach("end")
}
