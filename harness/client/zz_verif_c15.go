//go:build verif

package client

import "sync"

func vCloneLine(l *Line) *Line {
	c := *l
	c.Args = append([]string{}, l.Args...)
	if l.Tags != nil {
		c.Tags = map[string]string{}
		for k, v := range l.Tags {
			c.Tags[k] = v
		}
	}
	return &c
}

func vScribble(l *Line) {
	l.Nick, l.Cmd, l.Raw = "scribbled", "SCRIBBLED", "scribbled"
	for i := range l.Args {
		l.Args[i] = "scribbled"
	}
	l.Args = append(l.Args, "more")
	if l.Tags != nil {
		for k := range l.Tags {
			l.Tags[k] = "scribbled"
		}
		l.Tags["scribble"] = "yes"
	}
}

// vC15Line builds the d-th dispatched line: symbolic nick, raw text, arguments and tags.
func vC15Line(d string) *Line {
	nargs := vLen("nargs"+d, 0, vParam("A", 3))
	if nargs == vParam("A", 3) && vParam("A15", 0) == 1 {
		nargs = 15
	}
	line := &Line{Cmd: "EV", Nick: vStr("nick"+d, 1), Raw: vStr("raw"+d, 2)}
	for i := 0; i < nargs; i++ {
		n := 1 // (15 arguments: one symbolic byte each)
		if nargs <= 3 {
			n = vLen("arglen"+d+string([]byte{byte('a' + i)}), 0, 2)
		}
		line.Args = append(line.Args, vStr("arg"+d+string([]byte{byte('a' + i)}), n))
	}
	switch vLen("tags"+d, 0, 3) {
	case 1:
		line.Tags = map[string]string{}
	case 2:
		line.Tags = map[string]string{"k": vStr("tv"+d, 1)}
	case 3:
		k2 := vStr("tk"+d, 1)
		vAssume(k2[0] != 'k')
		line.Tags = map[string]string{"k": vStr("tv"+d, 1), k2: vStr("tv2"+d, 1)}
	}
	return line
}

// VerifC15Copies: every handler invocation (internal, foreground, background)
// gets a line equal to the dispatched event and sharing no mutable storage with
// the line of any other invocation - of the same event or of a later one - or
// with the original. Handlers keep their line and overwrite every mutable part
// of it, on entry and again after they have returned (the worker-goroutine
// pattern the documentation suggests for slow handlers).
func VerifC15Copies() {
	conn := vNewConn(false)
	var seen []*Line  // the lines themselves (kept and edited by the handlers)
	var entry []*Line // shallow snapshots taken on entry: same Args backing array and Tags map as handed over
	var pristine *Line
	var mu sync.Mutex
	panicker := -1 // which handler set's first handler panics after it has looked at (and edited) its line
	if vParam("RECOVER", 0) == 1 {
		// a recovery function that edits the line it is handed (say, redacting it before logging it)
		panicker = vLen("panicker", 0, 2)
		conn.cfg.Recover = func(c *Conn, l *Line) {
			if r := recover(); r != nil {
				mu.Lock()
				vScribble(l)
				mu.Unlock()
			}
		}
	}
	mk := func(set, idx int) HandlerFunc {
		return func(c *Conn, l *Line) {
			mu.Lock()
			defer mu.Unlock()
			vAssert(vSameLine(l, pristine), "equal-on-entry")
			e := *l
			entry = append(entry, &e)
			seen = append(seen, l)
			vScribble(l)
			if set == panicker && idx == 0 {
				panic("handler gives up")
			}
		}
	}
	nint, nfg, nbg := vLen("nint", 0, 1), vLen("nfg", 0, 2), vLen("nbg", 0, 2)
	if vParam("MANY", 0) == 1 {
		// long handler lists, around the powers of two an implementation might batch or pool by
		n := []int{9, 17, 33}[vLen("many", 0, 2)]
		if vLen("manyset", 0, 1) == 0 {
			nfg = n
		} else {
			nbg = n
		}
	}
	for i := 0; i < nint; i++ {
		conn.handle("ev", mk(0, i))
	}
	for i := 0; i < nfg; i++ {
		conn.HandleFunc("ev", mk(1, i))
	}
	for i := 0; i < nbg; i++ {
		conn.HandleBG("EV", mk(2, i))
	}
	nd := vParam("D", 1)
	var originals []*Line
	for d := 0; d < nd; d++ {
		line := vC15Line(string([]byte{byte('0' + d)}))
		pristine = vCloneLine(line)
		originals = append(originals, line)
		conn.dispatch(line)
		vRunPending()
		vAssert(vSameLine(line, pristine), "original-unchanged")
		// the handlers have returned; whoever kept a line edits it again
		mu.Lock()
		for _, l := range seen {
			vScribble(l)
		}
		mu.Unlock()
	}
	vAssert(len(seen) == nd*(nint+nfg+nbg), "each-handler-invoked-once")
	for i := range seen {
		for _, o := range originals {
			vAssert(!vSharesStorage(entry[i], o), "private-from-original")
			vAssert(!vSharesStorage(seen[i], o), "private-from-original")
		}
		for j := 0; j < i; j++ {
			vAssert(seen[i] != seen[j], "private-from-each-other")
			vAssert(!vSharesStorage(entry[i], entry[j]), "private-from-each-other")
			vAssert(!vSharesStorage(seen[i], seen[j]), "private-from-each-other")
		}
	}
	vReach("end")
}
