//go:build verif

package client

import "sync"

func vCloneLine(l *Line) *Line {
	c := *l
	c.Args = append([]string{}, l.Args...)
	if l.Tags != nil {
		c.Tags = map[string]string{}
		for k, v := range l.Tags {
			c.Tags[k] = v
		}
	}
	return &c
}

func vScribble(l *Line) {
	l.Nick, l.Cmd, l.Raw = "scribbled", "SCRIBBLED", "scribbled"
	for i := range l.Args {
		l.Args[i] = "scribbled"
	}
	l.Args = append(l.Args, "more")
	if l.Tags != nil {
		for k := range l.Tags {
			l.Tags[k] = "scribbled"
		}
		l.Tags["scribble"] = "yes"
	}
}

// vC15Line builds the d-th dispatched line: symbolic nick, raw text, arguments and tags.
func vC15Line(d string) *Line {
	nargs := vLen("nargs"+d, 0, vParam("A", 3))
	if nargs == vParam("A", 3) && vParam("A15", 0) == 1 {
		nargs = 15
	}
	line := &Line{Cmd: "EV", Nick: vStr("nick"+d, 1), Raw: vStr("raw"+d, 2)}
	for i := 0; i < nargs; i++ {
		n := 1 // (15 arguments: one symbolic byte each)
		if nargs <= 3 {
			n = vLen("arglen"+d+string([]byte{byte('a' + i)}), 0, 2)
		}
		line.Args = append(line.Args, vStr("arg"+d+string([]byte{byte('a' + i)}), n))
	}
	switch vLen("tags"+d, 0, 3) {
	case 1:
		line.Tags = map[string]string{}
	case 2:
		line.Tags = map[string]string{"k": vStr("tv"+d, 1)}
	case 3:
		k2 := vStr("tk"+d, 1)
		vAssume(k2[0] != 'k')
		line.Tags = map[string]string{"k": vStr("tv"+d, 1), k2: vStr("tv2"+d, 1)}
	}
	return line
}

// VerifC15Copies: every handler invocation (internal, foreground, background)
// gets a line equal to the dispatched event and sharing no mutable storage with
// the line of any other invocation - of the same event or of a later one - or
// with the original. Handlers keep their line and overwrite every mutable part
// of it, on entry and again after they have returned (the worker-goroutine
// pattern the documentation suggests for slow handlers).
func VerifC15Copies() {
	conn := vNewConn(false)
	var seen []*Line  // the lines themselves (kept and edited by the handlers)
	var entry []*Line // shallow snapshots taken on entry: same Args backing array and Tags map as handed over
	var pristine *Line
	var mu sync.Mutex
	panicker := -1 // which handler set's first handler panics after it has looked at (and edited) its line
	if vParam("RECOVER", 0) == 1 {
		// a recovery function that edits the line it is handed (say, redacting it before logging it)
		panicker = vLen("panicker", 0, 2)
		conn.cfg.Recover = func(c *Conn, l *Line) {
			if r := recover(); r != nil {
				mu.Lock()
				vScribble(l)
				mu.Unlock()
			}
		}
	}
	mk := func(set, idx int) HandlerFunc {
		return func(c *Conn, l *Line) {
			mu.Lock()
			defer mu.Unlock()
			vAssert(vSameLine(l, pristine), "equal-on-entry")
			e := *l
			entry = append(entry, &e)
			seen = append(seen, l)
			vScribble(l)
			if set == panicker && idx == 0 {
				panic("handler gives up")
			}
		}
	}
	nint, nfg, nbg := vLen("nint", 0, 1), vLen("nfg", 0, 2), vLen("nbg", 0, 2)
	if vParam("MANY", 0) == 1 {
		// long handler lists, around the powers of two an implementation might batch or pool by
		n := []int{9, 17, 33}[vLen("many", 0, 2)]
		if vLen("manyset", 0, 1) == 0 {
			nfg = n
		} else {
			nbg = n
		}
	}
	for i := 0; i < nint; i++ {
		conn.handle("ev", mk(0, i))
	}
	for i := 0; i < nfg; i++ {
		conn.HandleFunc("ev", mk(1, i))
	}
	for i := 0; i < nbg; i++ {
		conn.HandleBG("EV", mk(2, i))
	}
	nd := vParam("D", 1)
	var originals []*Line
	for d := 0; d < nd; d++ {
		line := vC15Line(string([]byte{byte('0' + d)}))
		pristine = vCloneLine(line)
		originals = append(originals, line)
		conn.dispatch(line)
		vRunPending()
		vAssert(vSameLine(line, pristine), "original-unchanged")
		// the handlers have returned; whoever kept a line edits it again
		mu.Lock()
		for _, l := range seen {
			vScribble(l)
		}
		mu.Unlock()
	}
	vAssert(len(seen) == nd*(nint+nfg+nbg), "each-handler-invoked-once")
	for i := range seen {
		for _, o := range originals {
			vAssert(!vSharesStorage(entry[i], o), "private-from-original")
			vAssert(!vSharesStorage(seen[i], o), "private-from-original")
		}
		for j := 0; j < i; j++ {
			vAssert(seen[i] != seen[j], "private-from-each-other")
			vAssert(!vSharesStorage(entry[i], entry[j]), "private-from-each-other")
			vAssert(!vSharesStorage(seen[i], seen[j]), "private-from-each-other")
		}
	}
	vReach("end")
}

// VerifC15Async: background handlers start whenever the runtime gets round to them - possibly
// after the event loop has finished with their event and the reader is already parsing the
// next line. The line a background handler receives is still the event it was registered
// for: verb, arguments and raw text of ITS line. Real Connect / recv / runLoop; the next line
// arrives (fed by a foreground handler of the first one) before the background handler runs.
func VerifC15Async() {
	vSetOpt("schedExplore", 1)
	vSetOpt("maxSwitches", vParam("SW", 1))
	vYieldKinds("yield")
	cfg := NewConfig("me")
	cfg.Server, cfg.Proxy, cfg.PingFreq, cfg.Flood = "srv:1", "vtest://p", 0, true
	t1, t2 := vStr("text1", 2), vStr("text2", 2)
	for _, b := range []byte{t1[0], t1[1], t2[0], t2[1]} {
		vAssume(b < 0x80 && b > ' ' && b != ':' && b != 1)
	}
	line1, line2 := ":u!i@h PRIVMSG #c :"+t1, ":v!j@g NOTICE #d :"+t2
	w := vNewLiveWire(":srv 001 me :Welcome\r\n" + line1 + "\r\n")
	vInstallDialer(&vDialer{wire: w})
	conn := Client(cfg)
	var mu sync.Mutex
	fed := false
	conn.HandleFunc("PRIVMSG", func(c *Conn, l *Line) {
		mu.Lock()
		if !fed {
			fed = true
			w.feed(line2 + "\r\n") // the server's next line is on its way while this event is still being handled
		}
		mu.Unlock()
	})
	var got []*Line
	keep := HandlerFunc(func(c *Conn, l *Line) { mu.Lock(); got = append(got, l); mu.Unlock() })
	conn.HandleBG("PRIVMSG", keep)
	conn.HandleBG("NOTICE", keep)
	err := conn.Connect()
	vAssume(err == nil)
	vRunPending()
	mu.Lock()
	vAssert(len(got) == 2, "async:each-background-handler-invoked-once")
	n1, n2 := 0, 0
	for _, l := range got {
		if l.Raw == line1 {
			n1++
			vAssert(l.Cmd == "PRIVMSG" && l.Nick == "u" && len(l.Args) == 2 && l.Args[0] == "#c" && l.Args[1] == t1, "async:background-line-equals-its-event")
		}
		if l.Raw == line2 {
			n2++
			vAssert(l.Cmd == "NOTICE" && l.Nick == "v" && len(l.Args) == 2 && l.Args[0] == "#d" && l.Args[1] == t2, "async:background-line-equals-its-event")
		}
	}
	vAssert(n1 == 1 && n2 == 1, "async:background-line-equals-its-event")
	mu.Unlock()
	conn.Close()
	vRunPending()
	vReach("end")
}
