//go:build verif

package client

import "sync"

func vCloneLine(l *Line) *Line {
	c := *l
	c.Args = append([]string{}, l.Args...)
	if l.Tags != nil {
		c.Tags = map[string]string{}
		for k, v := range l.Tags {
			c.Tags[k] = v
		}
	}
	return &c
}

func vScribble(l *Line) {
	l.Nick, l.Cmd, l.Raw = "scribbled", "SCRIBBLED", "scribbled"
	for i := range l.Args {
		l.Args[i] = "scribbled"
	}
	l.Args = append(l.Args, "more")
	if l.Tags != nil {
		for k := range l.Tags {
			l.Tags[k] = "scribbled"
		}
		l.Tags["scribble"] = "yes"
	}
}

// VerifC15Copies: every handler invocation (internal, foreground, background)
// gets a line equal to the dispatched event and sharing no mutable storage with
// the line of any other invocation or with the original.
func VerifC15Copies() {
	nargs := vLen("nargs", 0, vParam("A", 3))
	if nargs == vParam("A", 3) && vParam("A15", 0) == 1 {
		nargs = 15
	}
	line := &Line{Cmd: "EV", Nick: vStr("nick", 1), Raw: vStr("raw", 2)}
	for i := 0; i < nargs; i++ {
		line.Args = append(line.Args, vStr("arg"+string([]byte{byte('a' + i)}), vLen("arglen"+string([]byte{byte('a' + i)}), 0, 2)))
	}
	switch vLen("tags", 0, 3) {
	case 1:
		line.Tags = map[string]string{}
	case 2:
		line.Tags = map[string]string{"k": vStr("tv", 1)}
	case 3:
		k2 := vStr("tk", 1)
		vAssume(k2[0] != 'k')
		line.Tags = map[string]string{"k": vStr("tv", 1), k2: vStr("tv2", 1)}
	}
	pristine := vCloneLine(line)
	conn := vNewConn(false)
	var seen []*Line
	var mu sync.Mutex
	h := func(c *Conn, l *Line) {
		mu.Lock()
		defer mu.Unlock()
		vAssert(vSameLine(l, pristine), "equal-on-entry")
		seen = append(seen, l)
		vScribble(l)
	}
	nint, nfg, nbg := vLen("nint", 0, 1), vLen("nfg", 0, 2), vLen("nbg", 0, 2)
	for i := 0; i < nint; i++ {
		conn.handle("ev", HandlerFunc(h))
	}
	for i := 0; i < nfg; i++ {
		conn.HandleFunc("ev", h)
	}
	for i := 0; i < nbg; i++ {
		conn.HandleBG("EV", HandlerFunc(h))
	}
	conn.dispatch(line)
	vRunPending()
	vAssert(len(seen) == nint+nfg+nbg, "each-handler-invoked-once")
	for i := range seen {
		vAssert(!vSharesStorage(seen[i], line), "private-from-original")
		for j := 0; j < i; j++ {
			vAssert(!vSharesStorage(seen[i], seen[j]), "private-from-each-other")
		}
	}
	vAssert(vSameLine(line, pristine), "original-unchanged")
	vReach("end")
}
