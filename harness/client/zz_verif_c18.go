//go:build verif

package client

import (
	"context"
	"time"
)

func vGenField(name string, lo, hi int) string {
	s := vStr(name, vLen(name+"len", lo, hi))
	for i := 0; i < len(s); i++ {
		vAssume(s[i] != '\r' && s[i] != '\n')
	}
	return s
}

// VerifC18Register: REGISTER makes the client send, once each and in this
// order, CAP LS (iff negotiation is on), PASS (iff a password is set), NICK, USER.
func VerifC18Register() {
	capneg := vLen("capneg", 0, 1) == 1
	pass := vGenField("pass", 0, 2)
	nick, ident, name := vGenField("nick", 1, 2), vGenField("ident", 1, 2), vGenField("name", 1, 2)
	cfg := NewConfig(nick, ident, name)
	cfg.Pass = pass
	cfg.EnableCapabilityNegotiation = capneg
	conn := Client(cfg)
	conn.initialise()
	conn.out = make(chan string, 16)
	if vLen("track", 0, 1) == 1 {
		conn.EnableStateTracking()
	}
	conn.dispatch(&Line{Cmd: REGISTER})
	vRunPending()
	var want []string
	if capneg {
		want = append(want, "CAP LS")
	}
	if pass != "" {
		want = append(want, "PASS "+pass)
	}
	want = append(want, "NICK "+nick, "USER "+ident+" 12 * :"+name)
	got := vDrain(conn)
	vAssert(len(got) == len(want), "registration-line-count")
	if len(got) == len(want) {
		for i := range want {
			vAssert(got[i] == want[i], "registration-line")
		}
	}
	vReach("end")
}

// VerifC18Dial: the address dialled is the configured one, with :6667 (:6697
// with SSL) added only when no port was given; a failed dial fires nothing; a
// successful one dispatches REGISTER exactly once before Connect returns.
func VerifC18Dial() {
	host := vStr("host", vLen("hostlen", 1, vParam("HL", 2)))
	for i := 0; i < len(host); i++ {
		b := host[i]
		vAssume(b < 0x80 && b != ':' && b != '[' && b != ']' && b != '%' && b != 0)
	}
	server, hasPort := host, false
	switch vLen("form", 0, 2) {
	case 1:
		port := vStr("port", vLen("portlen", 0, 2))
		for i := 0; i < len(port); i++ {
			vAssume(port[i]-'0' < 10)
		}
		server, hasPort = host+":"+port, true
	case 2:
		server, hasPort = "[::"+host+"]:7000", true
	}
	ssl := vLen("ssl", 0, 1) == 1
	fail := vLen("dialfails", 0, 1) == 1
	w := vNewLiveWire()
	d := &vDialer{wire: w, fail: fail}
	vInstallDialer(d)
	cfg := NewConfig("me")
	cfg.Proxy = "vtest://proxy"
	cfg.PingFreq = 0
	// the address and the SSL switch may be set before the client is built or - as the
	// documentation of Connect says - on its Config() afterwards
	late := vLen("late", 0, 2)
	if late < 2 {
		cfg.Server = server
	}
	if late < 1 {
		cfg.SSL = ssl
	}
	conn := Client(cfg)
	if late >= 1 {
		conn.Config().SSL = ssl
	}
	if late >= 2 {
		conn.Config().Server = server
	}
	registers, others := 0, 0
	conn.HandleFunc(REGISTER, func(*Conn, *Line) { registers++ })
	conn.HandleFunc(CONNECTED, func(*Conn, *Line) { others++ })
	conn.HandleFunc(DISCONNECTED, func(*Conn, *Line) { others++ })
	err := conn.ConnectContext(context.Background())
	want := server
	if !hasPort {
		if ssl {
			want = server + ":6697"
		} else {
			want = server + ":6667"
		}
	}
	vAssert(len(d.addrs) == 1, "dialled-once")
	if len(d.addrs) == 1 {
		vAssert(d.addrs[0] == want, "dialled-address")
	}
	if fail || ssl { // the stub TLS peer never completes a handshake
		vAssert(err != nil, "failed-connect-returns-error")
		vAssert(registers == 0 && others == 0, "failed-connect-fires-nothing")
		vAssert(!conn.Connected(), "failed-connect-not-connected")
	} else {
		vAssert(err == nil, "connect-ok")
		vAssert(registers == 1 && others == 0, "register-once-before-connect-returns")
		vAssert(conn.Connected(), "connected-after-connect")
		vRunPending() // let the send goroutine put the queued lines on the wire
		vAssert(len(w.written) == 2 && w.written[0] == "NICK me\r\n", "registration-sent")
	}
	vDropPending()
	vReach("end")
}

// VerifC18Entry: every successful connect, through each exported entry point
// (Connect, ConnectContext, ConnectTo with and without a password argument,
// ConnectToContext) and again after a disconnect, dials the server that entry
// point names and registers with the password then in force: CAP LS (iff
// negotiation), PASS (iff a password is set), NICK, USER - once each, in order.
func VerifC18Entry() {
	capneg := vLen("capneg", 0, 1) == 1
	pass := vGenField("pw", 0, 1)
	cfg := NewConfig("me", "id", "nm")
	cfg.Server, cfg.Proxy = "srv:1", "vtest://proxy"
	cfg.Pass = pass
	cfg.PingFreq = 0
	cfg.Flood = true
	cfg.EnableCapabilityNegotiation = capneg
	rounds := vParam("R", 2)
	d := &vDialer{}
	for r := 0; r < rounds; r++ {
		d.wires = append(d.wires, vNewLiveWire())
	}
	vInstallDialer(d)
	conn := Client(cfg)
	server := "srv:1"
	for r := 0; r < rounds; r++ {
		rs := string([]byte{byte('0' + r)})
		var err error
		switch vLen("entry"+rs, 0, 4) {
		case 0:
			err = conn.Connect()
		case 1:
			err = conn.ConnectContext(context.Background())
		case 2:
			server = "other:2"
			err = conn.ConnectTo(server)
		case 3:
			server = "third:3"
			pass = vGenField("pw"+rs, 0, 1)
			err = conn.ConnectTo(server, pass)
		case 4:
			server = "fourth:4"
			err = conn.ConnectToContext(context.Background(), server)
		}
		vAssert(err == nil, "connect-ok")
		if err != nil {
			return
		}
		vRunPending()
		vAssert(len(d.addrs) == r+1 && d.addrs[r] == server, "dialled-address")
		var want []string
		if capneg {
			want = append(want, "CAP LS\r\n")
		}
		if pass != "" {
			want = append(want, "PASS "+pass+"\r\n")
		}
		want = append(want, "NICK me\r\n", "USER id 12 * :nm\r\n")
		got := d.wires[r].written
		vAssert(len(got) == len(want), "registration-line-count")
		if len(got) == len(want) {
			for i := range want {
				vAssert(got[i] == want[i], "registration-line")
			}
		}
		conn.Close()
		vRunPending()
	}
	vReach("end")
}

// VerifC18Ping: every server PING carrying a token is answered by a PONG with the same token.
func VerifC18Ping() {
	conn := vNewConn(vLen("track", 0, 1) == 1)
	tok := vStr("tok", vLen("toklen", 0, vParam("TL", 3)))
	for i := 0; i < len(tok); i++ {
		b := tok[i]
		vAssume(b < 0x80 && b != 0 && b != '\r' && b != '\n' && (b == ' ' || b-9 >= 5))
	}
	var raw string
	if vLen("trailing", 0, 1) == 1 {
		raw = "PING :" + tok
	} else {
		vAssume(len(tok) > 0 && tok[0] != ':')
		for i := 0; i < len(tok); i++ {
			vAssume(tok[i] != ' ')
		}
		raw = "PING " + tok
	}
	if vLen("withsrc", 0, 1) == 1 {
		raw = ":srv " + raw
	}
	l := ParseLine(raw)
	vAssume(l != nil)
	vAssert(len(l.Args) == 1 && l.Args[0] == tok, "ping-token-parsed")
	conn.dispatch(l)
	vRunPending()
	got := vDrain(conn)
	vAssert(len(got) == 1, "one-pong")
	if len(got) == 1 {
		vAssert(got[0] == "PONG :"+tok, "pong-same-token")
	}
	vReach("end")
}

// VerifC18Keepalive: the client pings on its own exactly when PingFreq > 0.
func VerifC18Keepalive() {
	conn := vNewConn(false)
	pf := vInt("pingfreq")
	vAssume(pf >= -5 && pf <= 1<<40)
	conn.cfg.PingFreq = time.Duration(pf)
	w := vNewWire()
	conn.sock = w
	ctx, cancel := context.WithCancel(context.Background())
	conn.postConnect(ctx, true)
	if n := vPendingGoNamed("ping"); n >= 0 {
		if pf > 0 {
			vAssert(n == 1, "monitor:ping-goroutine-started")
		} else {
			vAssert(n == 0, "monitor:no-ping-goroutine")
		}
	}
	vDropPending()
	cancel()
	if pf > 0 {
		// the real ping loop against a ticker that has 3 ticks queued: 3 PINGs, then it stops on cancellation
		vSetOpt("tickerTicks", 3)
		conn.ping(ctx)
		got := vDrain(conn)
		if vEventCount("ticker") == 1 {
			vAssert(vEventInt("ticker", 0) == pf, "monitor:ticker-period-is-pingfreq")
			vAssert(len(got) == 3, "monitor:one-ping-per-tick")
			for _, g := range got {
				vAssert(len(g) >= 6 && g[:6] == "PING :", "monitor:ping-line")
			}
			vAssert(vEventCount("ticker-stop") == 1, "monitor:ticker-stopped")
		}
	}
	vReach("end")
}

// VerifC18LongPing: a PING whose token is longer than bufio's 4096-byte buffer,
// arriving over the connection (real recv loop), is still answered with the whole token.
func VerifC18LongPing() {
	conn := vNewConn(false)
	filler := make([]byte, vParam("FILL", 4200))
	for i := range filler {
		filler[i] = 'a'
	}
	tail := vStr("tail", vLen("taillen", 0, 2))
	for i := 0; i < len(tail); i++ {
		b := tail[i]
		vAssume(b < 0x80 && b != 0 && b != '\r' && b != '\n' && (b == ' ' || b-9 >= 5))
	}
	tok := string(filler) + tail
	w := vNewWire("PING :" + tok + "\r\n")
	conn.sock = w
	conn.postConnect(nil, false)
	conn.wg.Add(1)
	conn.recv()
	n := 0
	for {
		var l *Line
		select {
		case l = <-conn.in:
		default:
		}
		if l == nil {
			break
		}
		n++
		conn.dispatch(l)
		vRunPending()
	}
	vAssert(n == 1, "one-line-received")
	got := vDrain(conn)
	vAssert(len(got) == 1, "one-pong")
	if len(got) == 1 {
		vAssert(got[0] == "PONG :"+tok, "pong-same-token")
	}
	vReach("end")
}
