//go:build verif

package client

import (
	"bufio"
	"context"
)

// VerifC06Refused: a Connect that is refused (no server configured / already
// connected) returns an error, fires no event and leaves an existing
// connection untouched; Close on a client that is not connected does nothing.
func VerifC06Refused() {
	track := vLen("track", 0, 1) == 1
	conn := vNewConn(track)
	events := 0
	for _, ev := range []string{REGISTER, CONNECTED, DISCONNECTED} {
		conn.HandleFunc(ev, func(*Conn, *Line) { events++ })
	}
	connected := vLen("connected", 0, 1) == 1
	w := vNewWire()
	var in0 chan *Line
	var out0 chan string
	var io0 *bufio.ReadWriter
	cancelled := false
	if connected {
		// an established connection, as internalConnect leaves it
		conn.sock = w
		conn.postConnect(context.Background(), false)
		conn.die = func() { cancelled = true }
		conn.connected = true
		if track {
			conn.st.NewChannel("#c")
			conn.st.Associate("#c", "me")
		}
	}
	in0, out0, io0 = conn.in, conn.out, conn.io
	switch vLen("what", 0, 2) {
	case 0: // no server configured
		conn.cfg.Server = ""
		err := conn.Connect()
		vAssert(err != nil, "refused-with-error")
	case 1: // already connected
		vAssume(connected)
		conn.cfg.Server = "irc.example:6667"
		err := conn.ConnectContext(context.Background())
		vAssert(err != nil, "refused-with-error")
	case 2: // Close when not connected
		vAssume(!connected)
		err := conn.Close()
		vAssert(err == nil, "close-noop-returns-nil")
	}
	vRunPending()
	vAssert(events == 0, "no-event-fired")
	vAssert(conn.Connected() == connected, "connected-flag-unchanged")
	if connected {
		vAssert(conn.sock == w && conn.io == io0 && conn.in == in0 && conn.out == out0, "live-connection-untouched")
		vAssert(conn.die != nil && !cancelled, "context-not-cancelled")
		vAssert(w.closed == 0, "socket-not-closed")
		if track {
			vAssert(conn.st.GetChannel("#c") != nil, "tracker-not-wiped")
		}
	}
	vReach("end")
}
