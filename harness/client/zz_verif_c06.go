//go:build verif

package client

import (
	"context"
)

// VerifC06Refused: a Connect that is refused (no server configured / already
// connected) returns an error, fires no event and leaves an existing
// connection untouched; Close on a client that is not connected does nothing.
func VerifC06Refused() {
	track := vLen("track", 0, 1) == 1
	conn := vNewConn(track)
	events := 0
	for _, ev := range []string{REGISTER, CONNECTED, DISCONNECTED} {
		conn.HandleFunc(ev, func(*Conn, *Line) { events++ })
	}
	connected := vLen("connected", 0, 1) == 1
	w := vNewWire()
	var in0 chan *Line
	var out0 chan string
	var io0 interface{}
	cancelled := false
	if connected {
		// an established connection, as internalConnect leaves it
		conn.sock = w
		conn.postConnect(context.Background(), false)
		conn.die = func() { cancelled = true }
		conn.connected = true
		if track {
			conn.st.NewChannel("#c")
			conn.st.Associate("#c", "me")
		}
	}
	in0, out0, io0 = conn.in, conn.out, conn.io
	switch vLen("what", 0, 2) {
	case 0: // no server configured
		conn.cfg.Server = ""
		err := conn.Connect()
		vAssert(err != nil, "refused-with-error")
	case 1: // already connected
		vAssume(connected)
		conn.cfg.Server = "irc.example:6667"
		err := conn.ConnectContext(context.Background())
		vAssert(err != nil, "refused-with-error")
	case 2: // Close when not connected
		vAssume(!connected)
		err := conn.Close()
		vAssert(err == nil, "close-noop-returns-nil")
	}
	vRunPending()
	vAssert(events == 0, "no-event-fired")
	vAssert(conn.Connected() == connected, "connected-flag-unchanged")
	if connected {
		vAssert(conn.sock == w && interface{}(conn.io) == io0 && conn.in == in0 && conn.out == out0, "live-connection-untouched")
		vAssert(conn.die != nil && !cancelled, "context-not-cancelled")
		vAssert(w.closed == 0, "socket-not-closed")
		if track {
			vAssert(conn.st.GetChannel("#c") != nil, "tracker-not-wiped")
		}
	}
	vReach("end")
}

// VerifC06RefusedLive: the same through the public API on a live connection (real Connect
// via the stub dialler, recv / runLoop / send running): a second Connect / ConnectTo /
// Connect-without-server is refused with an error and fires nothing; the existing connection
// is then still fully working - a PING is answered on the wire - and it still ends with
// exactly one DISCONNECTED whichever way it ends (server EOF, Close, context cancellation).
func VerifC06RefusedLive() {
	vSetOpt("deadlockIsViolation", 1)
	cfg := NewConfig("me")
	cfg.Server, cfg.Proxy, cfg.PingFreq, cfg.Flood = "srv:1", "vtest://p", 0, true
	w := vNewLiveWire(":srv 001 me :Welcome\r\n")
	w2 := vNewLiveWire()
	d := &vDialer{wires: []*vWire{w, w2}}
	vInstallDialer(d)
	conn := Client(cfg)
	if vLen("track", 0, 1) == 1 {
		conn.EnableStateTracking()
	}
	reg, con, disc := 0, 0, 0
	conn.HandleFunc(REGISTER, func(*Conn, *Line) { reg++ })
	conn.HandleFunc(CONNECTED, func(*Conn, *Line) { con++ })
	conn.HandleFunc(DISCONNECTED, func(c *Conn, l *Line) {
		disc++
		vAssert(!c.Connected(), "Connected-false-in-DISCONNECTED-handler")
	})
	ctx, cancel := context.WithCancel(context.Background())
	err := conn.ConnectContext(ctx)
	vAssume(err == nil)
	vRunPending()
	vAssert(reg == 1 && con == 1 && disc == 0 && conn.Connected(), "live:established")
	refusals := vLen("refusals", 1, 2)
	for i := 0; i < refusals; i++ {
		switch vLen("how"+vItoa(i), 0, 2) {
		case 0:
			err = conn.Connect()
		case 1:
			err = conn.ConnectTo("other:2")
		case 2:
			err = conn.ConnectContext(context.Background())
		}
		vRunPending()
		vAssert(err != nil, "refused-with-error")
		vAssert(reg == 1 && con == 1 && disc == 0, "no-event-fired")
		vAssert(conn.Connected(), "connected-flag-unchanged")
	}
	vAssert(len(d.addrs) == 1 && w.closed == 0, "live-connection-untouched")
	before := len(w.written)
	w.feed("PING :still-there\r\n")
	vRunPending()
	pong := false
	for _, x := range w.written[before:] {
		pong = pong || x == "PONG :still-there\r\n"
	}
	vAssert(pong, "live-connection-still-working")
	switch vLen("end", 0, 2) {
	case 0:
		w.feedEOF("")
	case 1:
		conn.Close()
	case 2:
		cancel()
	}
	vRunPending()
	vAssert(disc == 1, "DISCONNECTED-exactly-once")
	vAssert(!conn.Connected(), "not-connected-at-the-end")
	vAssert(reg == 1, "REGISTER-exactly-once")
	cancel()
	vReach("end")
}
