//go:build verif

package state

// VerifC14Step: from ANY valid tracker state, one call of any Tracker method (String included):
// (1) whatever it returns shares no mutable storage with the tracker, so
// neither side can change the other; (2) lock discipline: the call is exactly
// one critical section of the tracker's mutex, every map access and every
// store into tracker-owned objects happens inside it, and the mutex is free
// afterwards - on every path.
func VerifC14Step() {
	m := vGenState()
	r := vBuild(m)
	st := r.st
	a, b := vArgName("argA"), vArgName("argB")
	vSetOpt("watchReads", 1) // reads of tracker fields that some method writes need the lock too
	vWatch(st, &st.mu)
	acq := vLockAcquires(&st.mu)
	var ret interface{}
	op := vLen("op", 0, 16)
	vWatchOn(true)
	switch op {
	case 0:
		ret = st.NewNick(a)
	case 1:
		ret = st.GetNick(a)
	case 2:
		ret = st.ReNick(a, b)
	case 3:
		ret = st.DelNick(a)
	case 4:
		ret = st.NickInfo(a, "i", "h", "n")
	case 5:
		ret = st.NickModes(a, vStr("modes", vLen("modeslen", 0, 1)))
	case 6:
		ret = st.NewChannel(a)
	case 7:
		ret = st.GetChannel(a)
	case 8:
		ret = st.DelChannel(a)
	case 9:
		ret = st.Topic(a, "t")
	case 10:
		ret = st.ChannelModes(a, vStr("modes", vLen("modeslen", 0, 1)), b)
	case 11:
		ret = st.Me()
	case 12:
		cp, _ := st.IsOn(a, b)
		ret = cp
	case 13:
		ret = st.Associate(a, b)
	case 14:
		st.Dissociate(a, b)
	case 15:
		st.Wipe()
	case 16:
		_ = st.String()
	}
	vWatchOn(false)
	vAssert(vLockAcquires(&st.mu) <= acq+1, "at-most-one-critical-section") // a call that touches no tracker state (NewNick("")) may take no lock at all
	vAssert(!vLockHeld(&st.mu), "lock-released")
	vAssert(vEventCount("unguarded") == 0, "monitor:all-accesses-under-lock")
	if ret != nil {
		vAssert(!vShares(ret, st), "result-is-private-copy")
	}
	// ... and no two answers share storage with each other (so editing one cannot show up in another)
	var snaps []interface{}
	if ret != nil {
		snaps = append(snaps, ret)
	}
	snaps = append(snaps, st.Me())
	for i := 0; i < vNN; i++ {
		if m.nOn[i] {
			if n := st.GetNick(m.nName[i]); n != nil {
				snaps = append(snaps, n)
			}
		}
	}
	for j := 0; j < vNC; j++ {
		if m.cOn[j] {
			if c := st.GetChannel(m.cName[j]); c != nil {
				snaps = append(snaps, c)
			}
		}
	}
	for i := range snaps {
		for k := 0; k < i; k++ {
			vAssert(!vShares(snaps[i], snaps[k]), "answers-share-nothing-with-each-other")
		}
	}
	vAssert(vInv(st), "invariant")
	vReach("end")
}
