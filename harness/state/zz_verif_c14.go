//go:build verif

package state

import (
	"reflect"
	"strconv"
)

// VerifC14Step: from ANY valid tracker state, one call of any Tracker method (String included):
// (1) whatever it returns shares no mutable storage with the tracker, so
// neither side can change the other; (2) lock discipline: the call is exactly
// one critical section of the tracker's mutex, every map access and every
// store into tracker-owned objects happens inside it, and the mutex is free
// afterwards - on every path.
func VerifC14Step() {
	m := vGenState()
	r := vBuild(m)
	st := r.st
	a, b := vArgName("argA"), vArgName("argB")
	vSetOpt("watchReads", 1) // reads of tracker fields that some method writes need the lock too
	vWatch(st, &st.mu)
	acq := vLockAcquires(&st.mu)
	var ret interface{}
	op := vLen("op", 0, 16)
	vWatchOn(true)
	switch op {
	case 0:
		ret = st.NewNick(a)
	case 1:
		ret = st.GetNick(a)
	case 2:
		ret = st.ReNick(a, b)
	case 3:
		ret = st.DelNick(a)
	case 4:
		ret = st.NickInfo(a, "i", "h", "n")
	case 5:
		ret = st.NickModes(a, vStr("modes", vLen("modeslen", 0, 1)))
	case 6:
		ret = st.NewChannel(a)
	case 7:
		ret = st.GetChannel(a)
	case 8:
		ret = st.DelChannel(a)
	case 9:
		ret = st.Topic(a, "t")
	case 10:
		ret = st.ChannelModes(a, vStr("modes", vLen("modeslen", 0, 1)), b)
	case 11:
		ret = st.Me()
	case 12:
		cp, _ := st.IsOn(a, b)
		ret = cp
	case 13:
		ret = st.Associate(a, b)
	case 14:
		st.Dissociate(a, b)
	case 15:
		st.Wipe()
	case 16:
		_ = st.String()
	}
	vWatchOn(false)
	vAssert(vLockAcquires(&st.mu) <= acq+1, "at-most-one-critical-section") // a call that touches no tracker state (NewNick("")) may take no lock at all
	vAssert(!vLockHeld(&st.mu), "lock-released")
	vAssert(vEventCount("unguarded") == 0, "monitor:all-accesses-under-lock")
	if ret != nil {
		vAssert(!vShares(ret, st), "result-is-private-copy")
	}
	// ... and no two answers share storage with each other (so editing one cannot show up in another)
	var snaps []interface{}
	if ret != nil {
		snaps = append(snaps, ret)
	}
	snaps = append(snaps, st.Me())
	for i := 0; i < vNN; i++ {
		if m.nOn[i] {
			if n := st.GetNick(m.nName[i]); n != nil {
				snaps = append(snaps, n)
			}
		}
	}
	for j := 0; j < vNC; j++ {
		if m.cOn[j] {
			if c := st.GetChannel(m.cName[j]); c != nil {
				snaps = append(snaps, c)
			}
		}
	}
	for i := range snaps {
		for k := 0; k < i; k++ {
			vAssert(!vShares(snaps[i], snaps[k]), "answers-share-nothing-with-each-other")
		}
	}
	vAssert(vInv(st), "invariant")
	vReach("end")
}

// VerifC14History: the same two questions after HISTORIES made through the public API only
// (so that whatever auxiliary representation the tracker keeps - caches, published
// snapshots, new attributes - is in the state the real code leaves it in): starting from
// NewTracker + a channel with the client and another user, K operations chosen from a
// list of 16 (mode changes incl. bans / keys / limits / privileges, renames, info, topic,
// membership changes); after each, every answer is heap-disjoint from the tracker and from
// every other answer, and the answers agree with each other at that moment: Me() equals
// GetNick(<my nick>), and a nick's privileges on a channel read the same from both sides.
func VerifC14History() {
	K := vParam("K", 2)
	var st Tracker = NewTracker("me")
	st.NewNick("n")
	st.NewChannel("#c")
	st.Associate("#c", "me")
	st.Associate("#c", "n")
	me, other := "me", "n"
	for step := 0; step < K; step++ {
		var ret interface{}
		switch vLen("op"+strconv.Itoa(step), 0, 15) {
		case 0:
			ret = st.ChannelModes("#c", "+o", me)
		case 1:
			ret = st.ChannelModes("#c", "+v-o", me, me)
		case 2:
			ret = st.ChannelModes("#c", "+b", "*!*@a")
		case 3:
			ret = st.ChannelModes("#c", "+b", "*!*@b")
		case 4:
			ret = st.ChannelModes("#c", "-b", "*!*@a")
		case 5:
			ret = st.ChannelModes("#c", "+kl", "key", "5")
		case 6:
			ret = st.ChannelModes("#c", "+o", other)
		case 7:
			ret = st.NickModes(me, "+iw")
		case 8:
			ret = st.NickInfo(me, "id", "host", "Real")
		case 9:
			ret = st.ReNick(me, me+"2")
			if ret.(*Nick) != nil {
				me = me + "2"
			}
		case 10:
			ret = st.ReNick(other, other+"2")
			if ret.(*Nick) != nil {
				other = other + "2"
			}
		case 11:
			ret = st.Topic("#c", "topic")
		case 12:
			st.Dissociate("#c", other)
			st.NewNick(other)
		case 13:
			ret = st.Associate("#c", other)
		case 14:
			st.NewChannel("#d")
			ret = st.Associate("#d", me)
		case 15:
			ret = st.DelChannel("#d")
		}
		var snaps []interface{}
		if ret != nil && !vIsNilPtr(ret) {
			snaps = append(snaps, ret)
		}
		m, g := st.Me(), st.GetNick(me)
		vAssert(m != nil && g != nil, "history:me-tracked")
		if m == nil || g == nil {
			return
		}
		vAssert(reflect.DeepEqual(m, g), "history:Me-agrees-with-GetNick")
		snaps = append(snaps, m, g)
		if c := st.GetChannel("#c"); c != nil {
			snaps = append(snaps, c)
			if cp, on := c.Nicks[me]; on {
				vAssert(reflect.DeepEqual(cp, m.Channels["#c"]), "history:privileges-agree-from-both-sides")
			}
		}
		if o := st.GetNick(other); o != nil {
			snaps = append(snaps, o)
		}
		if cp, on := st.IsOn("#c", me); on {
			snaps = append(snaps, cp)
		}
		for i := range snaps {
			vAssert(!vShares(snaps[i], st), "history:answer-is-private-copy")
			for k := 0; k < i; k++ {
				vAssert(!vShares(snaps[i], snaps[k]), "history:answers-share-nothing-with-each-other")
			}
		}
	}
	vReach("end")
}

// vIsNilPtr: a typed nil pointer inside an interface (ReNick / ChannelModes return nil on refusal).
func vIsNilPtr(x interface{}) bool {
	switch p := x.(type) {
	case *Nick:
		return p == nil
	case *Channel:
		return p == nil
	case *ChanPrivs:
		return p == nil
	}
	return false
}

// VerifStateRepr: a self-test of the direct-heap pre-state builder (vBuild), run with every
// check that uses it. One concrete state is produced twice - by vBuild from the model and
// through the public API - and every query, and one mutation followed by every query, must
// give deep-equal answers on both without panicking. If it does not, the tracker's
// representation is no longer the one vBuild assumes (an added cache, a published snapshot,
// a folded key ...): the checks that start from vBuild states are then reported as BROKEN
// (exit 2) instead of raising alarms about states the real code never produces.
func VerifStateRepr() {
	m := &vModel{}
	m.nOn[0], m.nName[0], m.nId[0], m.nHost[0], m.nReal[0] = true, "me", "i", "h", "r"
	m.nMode[0].Invisible = true
	ok := false
	panicked := vPanics(func() {
		var api Tracker = NewTracker("me")
		api.NickInfo("me", "i", "h", "r")
		api.NickModes("me", "+i")
		if vNN > 1 && vNC > 0 {
			m.nOn[1], m.nName[1], m.nId[1], m.nHost[1], m.nReal[1] = true, "n", "j", "g", "s"
			m.cOn[0], m.cName[0], m.cTop[0] = true, "#c", "t"
			m.cMode[0].Key, m.cMode[0].Moderated = "k", true
			m.mem[0][0], m.mem[1][0] = true, true
			m.priv[1][0].Op = true
			api.NewNick("n")
			api.NickInfo("n", "j", "g", "s")
			api.NewChannel("#c")
			api.Topic("#c", "t")
			api.Associate("#c", "me")
			api.Associate("#c", "n")
			api.ChannelModes("#c", "+okm", "n", "k")
		}
		direct := vBuild(m).st
		same := func() bool {
			cp1, on1 := direct.IsOn("#c", "n")
			cp2, on2 := api.IsOn("#c", "n")
			return reflect.DeepEqual(direct.Me(), api.Me()) && reflect.DeepEqual(direct.GetNick("n"), api.GetNick("n")) &&
				reflect.DeepEqual(direct.GetNick("me"), api.GetNick("me")) && reflect.DeepEqual(direct.GetChannel("#c"), api.GetChannel("#c")) &&
				on1 == on2 && reflect.DeepEqual(cp1, cp2)
		}
		ok = same()
		direct.ChannelModes("#c", "+v", "me")
		api.ChannelModes("#c", "+v", "me")
		direct.ReNick("n", "n2")
		api.ReNick("n", "n2")
		ok = ok && same() && reflect.DeepEqual(direct.GetNick("n2"), api.GetNick("n2"))
	})
	vAssert(!panicked && ok, "repr:direct-heap-state-matches-api-built-state")
	vReach("end")
}
