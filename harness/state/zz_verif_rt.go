//go:build verif

package state

// Harness runtime for package state. The symbolic executor intercepts the
// primitives (vStr, vLen, vInt, vBool, vByte, vParam, vAssume, vAssert, vReach,
// vRunPending, vSetOpt, vEventCount, vEventInt, vLockFree); the bodies below are
// the native implementation used when a counterexample is replayed with
// `go test -tags verif -overlay`.

import (
	"encoding/json"
	"fmt"
	"os"
	"reflect"
	"sync"
	"time"
)

type vVector struct {
	Inputs map[string]json.RawMessage `json:"inputs"`
	Params map[string]int             `json:"params"`
}

var (
	vOnce     sync.Once
	vVec      vVector
	vFailures []string
	vReachedL []string
	vMu       sync.Mutex
)

func vLoad() {
	vOnce.Do(func() {
		if p := os.Getenv("VERIF_REPLAY"); p != "" {
			b, err := os.ReadFile(p)
			if err != nil {
				panic(err)
			}
			if err := json.Unmarshal(b, &vVec); err != nil {
				panic(err)
			}
		}
	})
}

type vAssumeFailed struct{ what string }

func vStr(name string, n int) string {
	vLoad()
	var bs []int
	if raw, ok := vVec.Inputs[name]; ok {
		json.Unmarshal(raw, &bs)
	}
	out := make([]byte, n)
	for i := 0; i < n && i < len(bs); i++ {
		out[i] = byte(bs[i])
	}
	return string(out)
}

func vLen(name string, lo, hi int) int {
	vLoad()
	v := lo
	if raw, ok := vVec.Inputs[name]; ok {
		json.Unmarshal(raw, &v)
	}
	if v < lo || v > hi {
		panic(vAssumeFailed{"vLen " + name})
	}
	return v
}

func vInt(name string) int {
	vLoad()
	v := 0
	if raw, ok := vVec.Inputs[name]; ok {
		json.Unmarshal(raw, &v)
	}
	return v
}

func vBool(name string) bool {
	vLoad()
	v := false
	if raw, ok := vVec.Inputs[name]; ok {
		json.Unmarshal(raw, &v)
	}
	return v
}

func vByte(name string) byte { return byte(vInt(name)) }

func vParam(name string, def int) int {
	vLoad()
	if v, ok := vVec.Params[name]; ok {
		return v
	}
	return def
}

func vAssume(c bool) {
	if !c {
		panic(vAssumeFailed{"vAssume"})
	}
}

func vAssert(c bool, label string) {
	vMu.Lock()
	vAssertLog = append(vAssertLog, label)
	if !c {
		vFailures = append(vFailures, label)
	}
	vMu.Unlock()
}

// vObserve records a value for the executor-vs-compiler validation: the
// executor predicts it from the solver's model, the native run reports it.
func vObserve(label, val string) {
	vMu.Lock()
	vObsLog = append(vObsLog, fmt.Sprintf("%s=%x", label, val))
	vMu.Unlock()
}

var vAssertLog, vObsLog []string

func vReach(label string) {
	vMu.Lock()
	vReachedL = append(vReachedL, label)
	vMu.Unlock()
}

// vRunPending: the executor runs all spawned goroutines to completion here;
// natively, give background goroutines time to finish.
func vRunPending()               { time.Sleep(150 * time.Millisecond) }
func vSetOpt(name string, v int) {}
func vNote(s string)             {}

// vPanics runs f and reports whether a panic escaped it.
func vPanics(f func()) (p bool) {
	defer func() {
		if r := recover(); r != nil {
			if af, ok := r.(vAssumeFailed); ok {
				panic(af)
			}
			p = true
		}
	}()
	f()
	return false
}

// vASCII assumes every byte of s is < 0x80.
func vASCII(s string) {
	for i := 0; i < len(s); i++ {
		vAssume(s[i] < 0x80)
	}
}

func vFmt(format string, a ...interface{}) string { return fmt.Sprintf(format, a...) }

// Lock-discipline monitor (executor only; no-ops natively): after vWatch(root,
// mu) every map reachable from root may be read only with mu held and written
// only with mu write-held, and every reachable object may be stored to only
// with mu write-held, while vWatchOn(true). Violations are logged as event
// "unguarded". vLockAcquires counts Lock/RLock calls on mu.
func vWatch(root interface{}, mu interface{}) {}
func vWatchOn(on bool)                        {}

// vPermuteIn: the executor explores every iteration order of map ranges inside the named function.
func vPermuteIn(fn string) {}
func vLockAcquires(mu interface{}) int {
	if c, ok := mu.(interface{ vAcquires() int }); ok {
		return c.vAcquires()
	}
	panic("vLockAcquires: native replay needs the counting mutex overlay")
}
func vLockHeld(mu interface{}) bool {
	if c, ok := mu.(interface{ vHeld() bool }); ok {
		return c.vHeld()
	}
	panic("vLockHeld: native replay needs the counting mutex overlay")
}

// vEventCount: executor event log (natively there are no monitor events).
func vEventCount(kind string) int { return 0 }

// vShares reports whether two values can reach a common mutable heap object
// (pointer target, map, slice backing array). Intercepted by the executor
// (which compares its heap graph); natively it walks both values with reflect.
func vShares(a, b interface{}) bool {
	sa, sb := map[uintptr]bool{}, map[uintptr]bool{}
	vReachable(reflect.ValueOf(a), sa, 0)
	vReachable(reflect.ValueOf(b), sb, 0)
	for p := range sa {
		if sb[p] {
			return true
		}
	}
	return false
}

func vReachable(v reflect.Value, set map[uintptr]bool, depth int) {
	if !v.IsValid() || depth > 12 {
		return
	}
	switch v.Kind() {
	case reflect.Ptr:
		if v.IsNil() || set[v.Pointer()] {
			return
		}
		if v.Elem().Kind() == reflect.Struct && v.Elem().NumField() == 0 {
			return
		}
		set[v.Pointer()] = true
		vReachable(v.Elem(), set, depth+1)
	case reflect.Interface:
		if !v.IsNil() {
			vReachable(v.Elem(), set, depth+1)
		}
	case reflect.Map:
		if v.IsNil() || set[v.Pointer()] {
			return
		}
		set[v.Pointer()] = true
		it := v.MapRange()
		for it.Next() {
			vReachable(it.Key(), set, depth+1)
			vReachable(it.Value(), set, depth+1)
		}
	case reflect.Slice:
		if v.IsNil() || v.Cap() == 0 {
			return
		}
		set[v.Pointer()] = true
		for i := 0; i < v.Len(); i++ {
			vReachable(v.Index(i), set, depth+1)
		}
	case reflect.Struct:
		for i := 0; i < v.NumField(); i++ {
			vReachable(v.Field(i), set, depth+1)
		}
	case reflect.Array:
		for i := 0; i < v.Len(); i++ {
			vReachable(v.Index(i), set, depth+1)
		}
	}
}
