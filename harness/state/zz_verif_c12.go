//go:build verif

package state

import (
	"reflect"
	"strconv"
)

// ---- the plain relational model ------------------------------------------------

const vNN, vNC = 3, 2 // universe: 3 nick slots (slot 0 is the client), 2 channel slots

type vModel struct {
	nOn   [vNN]bool
	nName [vNN]string
	nId   [vNN]string
	nHost [vNN]string
	nReal [vNN]string
	nMode [vNN]NickMode
	cOn   [vNC]bool
	cName [vNC]string
	cTop  [vNC]string
	cMode [vNC]ChanMode
	mem   [vNN][vNC]bool
	priv  [vNN][vNC]ChanPrivs
}

func (m *vModel) nick(name string) int {
	for i := 0; i < vNN; i++ {
		if m.nOn[i] && m.nName[i] == name {
			return i
		}
	}
	return -1
}

func (m *vModel) chanIdx(name string) int {
	for j := 0; j < vNC; j++ {
		if m.cOn[j] && m.cName[j] == name {
			return j
		}
	}
	return -1
}

func (m *vModel) freeNick() int {
	for i := 1; i < vNN; i++ {
		if !m.nOn[i] {
			return i
		}
	}
	return -1
}

func (m *vModel) freeChan() int {
	for j := 0; j < vNC; j++ {
		if !m.cOn[j] {
			return j
		}
	}
	return -1
}

func (m *vModel) dropNick(i int) {
	m.nOn[i] = false
	for j := 0; j < vNC; j++ {
		m.mem[i][j] = false
	}
}

func (m *vModel) nChans(i int) int {
	n := 0
	for j := 0; j < vNC; j++ {
		if m.mem[i][j] {
			n++
		}
	}
	return n
}

// delChan: forget the channel and every other nick left sharing no channel.
func (m *vModel) delChan(j int) {
	m.cOn[j] = false
	for i := 0; i < vNN; i++ {
		if m.mem[i][j] {
			m.mem[i][j] = false
			if i != 0 && m.nChans(i) == 0 {
				m.dropNick(i)
			}
		}
	}
}

// ---- building the real tracker directly from the model ------------------------

type vReal struct {
	st    *stateTracker
	nicks [vNN]*nick
	chans [vNC]*channel
}

func vBuild(m *vModel) *vReal {
	r := &vReal{st: &stateTracker{chans: map[string]*channel{}, nicks: map[string]*nick{}}}
	for i := 0; i < vNN; i++ {
		if m.nOn[i] {
			md := m.nMode[i]
			nk := &nick{nick: m.nName[i], ident: m.nId[i], host: m.nHost[i], name: m.nReal[i], modes: &md,
				lookup: map[string]*channel{}, chans: map[*channel]*ChanPrivs{}}
			r.nicks[i] = nk
			r.st.nicks[nk.nick] = nk
		}
	}
	r.st.me = r.nicks[0]
	for j := 0; j < vNC; j++ {
		if m.cOn[j] {
			md := m.cMode[j]
			ch := &channel{name: m.cName[j], topic: m.cTop[j], modes: &md, lookup: map[string]*nick{}, nicks: map[*nick]*ChanPrivs{}}
			r.chans[j] = ch
			r.st.chans[ch.name] = ch
		}
	}
	for i := 0; i < vNN; i++ {
		for j := 0; j < vNC; j++ {
			if m.mem[i][j] {
				cp := m.priv[i][j]
				p := &cp
				r.chans[j].nicks[r.nicks[i]] = p
				r.chans[j].lookup[r.nicks[i].nick] = r.nicks[i]
				r.nicks[i].chans[r.chans[j]] = p
				r.nicks[i].lookup[r.chans[j].name] = r.chans[j]
			}
		}
	}
	return r
}

func vSym1(name string) string { return vStr(name, 1) }

func vGenNickMode(p string) NickMode {
	return NickMode{Bot: vBool(p + "B"), Invisible: vBool(p + "i"), Oper: vBool(p + "o"), WallOps: vBool(p + "w"), HiddenHost: vBool(p + "x"), SSL: vBool(p + "z")}
}

func vGenPrivs(p string) ChanPrivs {
	return ChanPrivs{Owner: vBool(p + "q"), Admin: vBool(p + "a"), Op: vBool(p + "o"), HalfOp: vBool(p + "h"), Voice: vBool(p + "v")}
}

func vGenChanMode(p string) ChanMode {
	return ChanMode{Private: vBool(p + "p"), Secret: vBool(p + "s"), ProtectedTopic: vBool(p + "t"), NoExternalMsg: vBool(p + "n"),
		Moderated: vBool(p + "m"), InviteOnly: vBool(p + "i"), OperOnly: vBool(p + "O"), SSLOnly: vBool(p + "z"),
		Registered: vBool(p + "r"), AllSSL: vBool(p + "Z"), Key: vStr(p+"key", vLen(p+"keylen", 0, 1)), Limit: vInt(p + "limit")}
}

// vGenState: an arbitrary tracker state over the universe (all attribute values symbolic).
func vGenState() *vModel {
	m := &vModel{}
	nn, nc := vParam("NN", 2), vParam("NC", 1)
	for i := 0; i < vNN && i < nn; i++ {
		id := string([]byte{byte('0' + i)})
		if i == 0 || vLen("n"+id, 0, 1) == 1 {
			m.nOn[i] = true
			m.nName[i] = vSym1("nick" + id)
			vAssume(m.nName[i][0] != '#' && m.nName[i][0] != '&') // nick and channel name spaces are disjoint
			m.nId[i], m.nHost[i], m.nReal[i] = vSym1("ident"+id), vSym1("host"+id), vSym1("real"+id)
			m.nMode[i] = vGenNickMode("nm" + id)
			for p := 0; p < i; p++ {
				if m.nOn[p] {
					vAssume(m.nName[p] != m.nName[i])
				}
			}
		}
	}
	for j := 0; j < vNC && j < nc; j++ {
		id := string([]byte{byte('0' + j)})
		if vLen("c"+id, 0, 1) == 1 {
			m.cOn[j] = true
			m.cName[j] = vSym1("chan" + id)
			vAssume(m.cName[j][0] == '#' || m.cName[j][0] == '&')
			m.cTop[j] = vSym1("topic" + id)
			m.cMode[j] = vGenChanMode("cm" + id)
			for p := 0; p < j; p++ {
				if m.cOn[p] {
					vAssume(m.cName[p] != m.cName[j])
				}
			}
		}
	}
	for i := 0; i < vNN; i++ {
		for j := 0; j < vNC; j++ {
			if m.nOn[i] && m.cOn[j] && vLen("mem"+string([]byte{byte('0' + i), byte('0' + j)}), 0, 1) == 1 {
				m.mem[i][j] = true
				m.priv[i][j] = vGenPrivs("pv" + string([]byte{byte('0' + i), byte('0' + j)}))
			}
		}
	}
	return m
}

// ---- comparing snapshots with the model ---------------------------------------

func vNickMatches(m *vModel, i int, n *Nick) bool {
	if n == nil || n.Modes == nil || n.Channels == nil {
		return false
	}
	ok := n.Nick == m.nName[i] && n.Ident == m.nId[i] && n.Host == m.nHost[i] && n.Name == m.nReal[i] && reflect.DeepEqual(*n.Modes, m.nMode[i])
	cnt := 0
	for j := 0; j < vNC; j++ {
		if m.mem[i][j] {
			cnt++
			cp, found := n.Channels[m.cName[j]]
			if !found || cp == nil {
				return false
			}
			ok = ok && reflect.DeepEqual(*cp, m.priv[i][j])
		}
	}
	return ok && len(n.Channels) == cnt
}

func vChanMatches(m *vModel, j int, c *Channel) bool {
	if c == nil || c.Modes == nil || c.Nicks == nil {
		return false
	}
	ok := c.Name == m.cName[j] && c.Topic == m.cTop[j] && reflect.DeepEqual(*c.Modes, m.cMode[j])
	cnt := 0
	for i := 0; i < vNN; i++ {
		if m.mem[i][j] {
			cnt++
			cp, found := c.Nicks[m.nName[i]]
			if !found || cp == nil {
				return false
			}
			ok = ok && reflect.DeepEqual(*cp, m.priv[i][j])
		}
	}
	return ok && len(c.Nicks) == cnt
}

// vInv: the representation invariant of the real tracker.
func vInv(st *stateTracker) bool {
	if st.me == nil {
		return false
	}
	if me, found := st.nicks[st.me.nick]; !found || me != st.me {
		return false
	}
	ok := true
	for name, nk := range st.nicks {
		if nk == nil || nk.modes == nil || len(nk.chans) != len(nk.lookup) {
			return false
		}
		ok = ok && nk.nick == name
		for ch, cp := range nk.chans {
			if cp == nil || ch == nil || st.chans[ch.name] != ch || nk.lookup[ch.name] != ch || ch.nicks[nk] != cp || ch.lookup[nk.nick] != nk {
				return false
			}
		}
	}
	for name, ch := range st.chans {
		if ch == nil || ch.modes == nil || len(ch.nicks) != len(ch.lookup) {
			return false
		}
		ok = ok && ch.name == name
		for nk, cp := range ch.nicks {
			if cp == nil || nk == nil || st.nicks[nk.nick] != nk || ch.lookup[nk.nick] != nk || nk.chans[ch] != cp || nk.lookup[ch.name] != ch {
				return false
			}
		}
	}
	return ok
}

// vAgree: every query of the public interface answers as the model does, for
// every name of the universe (old and new) plus the extra names given.
func vAgree(st *stateTracker, m *vModel, extra []string) {
	vAssert(vInv(st), "invariant")
	nn, nc := 0, 0
	for i := 0; i < vNN; i++ {
		if m.nOn[i] {
			nn++
			vAssert(vNickMatches(m, i, st.GetNick(m.nName[i])), "GetNick")
		}
	}
	for j := 0; j < vNC; j++ {
		if m.cOn[j] {
			nc++
			vAssert(vChanMatches(m, j, st.GetChannel(m.cName[j])), "GetChannel")
		}
	}
	vAssert(len(st.nicks) == nn && len(st.chans) == nc, "tracked-sets")
	vAssert(vNickMatches(m, 0, st.Me()), "Me")
	for i := 0; i < vNN; i++ {
		for j := 0; j < vNC; j++ {
			if m.nOn[i] && m.cOn[j] {
				cp, ok := st.IsOn(m.cName[j], m.nName[i])
				vAssert(ok == m.mem[i][j], "IsOn")
				if ok && m.mem[i][j] {
					vAssert(cp != nil && reflect.DeepEqual(*cp, m.priv[i][j]), "IsOn-privs")
				}
			}
		}
	}
	for _, x := range extra {
		if m.nick(x) < 0 {
			vAssert(st.GetNick(x) == nil, "GetNick-untracked")
		}
		if m.chanIdx(x) < 0 {
			vAssert(st.GetChannel(x) == nil, "GetChannel-untracked")
		}
	}
}

// ---- mode strings ---------------------------------------------------------------

func vModelNickModes(nm *NickMode, modes string) {
	op := false
	for i := 0; i < len(modes); i++ {
		switch modes[i] {
		case '+':
			op = true
		case '-':
			op = false
		case 'B':
			nm.Bot = op
		case 'i':
			nm.Invisible = op
		case 'o':
			nm.Oper = op
		case 'w':
			nm.WallOps = op
		case 'x':
			nm.HiddenHost = op
		case 'z':
			nm.SSL = op
		}
	}
}

// vModelChanModes applies a channel mode string in the model. Where the
// property leaves argument consumption open (a privilege change for a nick not
// on the channel, a key removal) the path is kept only if no later mode
// character looks at the arguments.
func vModelChanModes(m *vModel, j int, modes string, args []string) {
	op := false
	open := false
	cm := &m.cMode[j]
	for i := 0; i < len(modes); i++ {
		c := modes[i]
		switch c {
		case '+':
			op = true
		case '-':
			op = false
		case 'i':
			cm.InviteOnly = op
		case 'm':
			cm.Moderated = op
		case 'n':
			cm.NoExternalMsg = op
		case 'p':
			cm.Private = op
		case 'r':
			cm.Registered = op
		case 's':
			cm.Secret = op
		case 't':
			cm.ProtectedTopic = op
		case 'z':
			cm.SSLOnly = op
		case 'Z':
			cm.AllSSL = op
		case 'O':
			cm.OperOnly = op
		case 'k':
			vAssume(!open)
			if op && len(args) != 0 {
				cm.Key, args = args[0], args[1:]
			} else if !op {
				cm.Key = ""
				if len(args) != 0 {
					open = true
				}
			}
		case 'l':
			vAssume(!open)
			if op && len(args) != 0 {
				cm.Limit, _ = strconv.Atoi(args[0])
				args = args[1:]
			} else if !op {
				cm.Limit = 0
			}
		case 'q', 'a', 'o', 'h', 'v':
			vAssume(!open)
			if len(args) != 0 {
				i2 := m.nick(args[0])
				if i2 >= 0 && m.mem[i2][j] {
					p := &m.priv[i2][j]
					switch c {
					case 'q':
						p.Owner = op
					case 'a':
						p.Admin = op
					case 'o':
						p.Op = op
					case 'h':
						p.HalfOp = op
					case 'v':
						p.Voice = op
					}
					args = args[1:]
				} else {
					open = true
				}
			}
		}
	}
}

// ---- one step of every Tracker method -------------------------------------------

func vArgName(name string) string { return vStr(name, vLen(name+"len", 0, 1)) }

// VerifC12Step: from ANY valid tracker state over the universe, one call of any
// Tracker method with symbolic arguments behaves as the relational model does:
// same return value, same answers to every query afterwards, invariant kept.
func VerifC12Step() {
	vSetOpt("mapPerms", 3)
	vPermuteIn("delChannel")
	vPermuteIn("delNick")
	vPermuteIn("Wipe")
	vPermuteIn("ReNick")
	m := vGenState()
	r := vBuild(m)
	st := r.st
	vAssert(vInv(st), "pre-invariant")
	if vParam("WARM", 0) == 1 {
		// every query once before the call as well: whatever an implementation memoises
		// on a query (snapshots, lookups) is then populated when the mutation happens
		vAgree(st, m, nil)
	}
	op := vLen("op", 0, 13)
	a, b := vArgName("argA"), ""
	extra := []string{a}
	if op == 1 || op == 9 || op == 10 || op == 11 {
		b = vArgName("argB")
		extra = append(extra, b)
	}
	if only := vParam("OP", -1); only >= 0 {
		vAssume(op == only)
	} else if only == -2 {
		vAssume(op != 8)
	}
	switch op {
	case 0: // NewNick
		got := st.NewNick(a)
		if a == "" || m.nick(a) >= 0 {
			vAssert(got == nil, "NewNick-refused")
		} else {
			i := m.freeNick()
			vAssume(i >= 0)
			m.nOn[i], m.nName[i], m.nId[i], m.nHost[i], m.nReal[i], m.nMode[i] = true, a, "", "", "", NickMode{}
			vAssert(vNickMatches(m, i, got), "NewNick-result")
		}
	case 1: // ReNick
		got := st.ReNick(a, b)
		i := m.nick(a)
		if i < 0 || m.nick(b) >= 0 {
			vAssert(got == nil, "ReNick-refused")
		} else {
			m.nName[i] = b
			vAssert(vNickMatches(m, i, got), "ReNick-result")
		}
	case 2: // DelNick
		got := st.DelNick(a)
		i := m.nick(a)
		if i <= 0 {
			vAssert(got == nil, "DelNick-refused")
		} else {
			m.dropNick(i)
			vAssert(got != nil && got.Nick == a && len(got.Channels) == 0, "DelNick-result")
		}
	case 3: // NickInfo
		id, host, real := vArgName("newident"), vArgName("newhost"), vArgName("newreal") // 0..1 bytes each: empty strings are values too
		got := st.NickInfo(a, id, host, real)
		i := m.nick(a)
		if i < 0 {
			vAssert(got == nil, "NickInfo-refused")
		} else {
			m.nId[i], m.nHost[i], m.nReal[i] = id, host, real
			vAssert(vNickMatches(m, i, got), "NickInfo-result")
		}
	case 4: // NickModes
		modes := vStr("modes", vLen("modeslen", 0, vParam("ML", 2)))
		got := st.NickModes(a, modes)
		i := m.nick(a)
		if i < 0 {
			vAssert(got == nil, "NickModes-refused")
		} else {
			vModelNickModes(&m.nMode[i], modes)
			vAssert(vNickMatches(m, i, got), "NickModes-result")
		}
	case 5: // NewChannel
		got := st.NewChannel(a)
		if a == "" || m.chanIdx(a) >= 0 {
			vAssert(got == nil, "NewChannel-refused")
		} else {
			j := m.freeChan()
			vAssume(j >= 0)
			m.cOn[j], m.cName[j], m.cTop[j], m.cMode[j] = true, a, "", ChanMode{}
			vAssert(vChanMatches(m, j, got), "NewChannel-result")
		}
	case 6: // DelChannel
		got := st.DelChannel(a)
		j := m.chanIdx(a)
		if j < 0 {
			vAssert(got == nil, "DelChannel-refused")
		} else {
			m.delChan(j)
			vAssert(got != nil && got.Name == a && len(got.Nicks) == 0, "DelChannel-result")
		}
	case 7: // Topic
		top := vSym1("newtopic")
		got := st.Topic(a, top)
		j := m.chanIdx(a)
		if j < 0 {
			vAssert(got == nil, "Topic-refused")
		} else {
			m.cTop[j] = top
			vAssert(vChanMatches(m, j, got), "Topic-result")
		}
	case 8: // ChannelModes
		modes := vStr("modes", vLen("modeslen", 0, vParam("ML", 2)))
		if vParam("ALPHA", 0) == 1 {
			// representative alphabet: both signs, a flag, key, limit, two privileges, an unknown character
			for k := 0; k < len(modes); k++ {
				c := modes[k]
				vAssume(c == '+' || c == '-' || c == 'i' || c == 'k' || c == 'l' || c == 'o' || c == 'v' || c == '?')
			}
		}
		if vParam("PLUS", 0) == 1 && len(modes) > 0 {
			vAssume(modes[0] == '+')
		}
		var margs []string
		for k := 0; k < vLen("nmargs", 0, vParam("MA", 2)); k++ {
			margs = append(margs, vArgName("marg"+string([]byte{byte('0' + k)})))
		}
		if vParam("ONCHAN", 0) == 1 {
			vAssume(m.cOn[0] && a == m.cName[0])
		}
		got := st.ChannelModes(a, modes, margs...)
		j := m.chanIdx(a)
		if j < 0 {
			vAssert(got == nil, "ChannelModes-refused")
		} else {
			vModelChanModes(m, j, modes, margs)
			vAssert(vChanMatches(m, j, got), "ChannelModes-result")
		}
	case 9: // IsOn for arbitrary names
		cp, ok := st.IsOn(a, b)
		j, i := m.chanIdx(a), m.nick(b)
		want := j >= 0 && i >= 0 && m.mem[i][j]
		vAssert(ok == want, "IsOn-any")
		if !want {
			vAssert(cp == nil, "IsOn-nil")
		}
	case 10: // Associate
		got := st.Associate(a, b)
		j, i := m.chanIdx(a), m.nick(b)
		if j < 0 || i < 0 || m.mem[i][j] {
			vAssert(got == nil, "Associate-refused")
		} else {
			m.mem[i][j], m.priv[i][j] = true, ChanPrivs{}
			vAssert(got != nil && *got == ChanPrivs{}, "Associate-result")
		}
	case 11: // Dissociate
		st.Dissociate(a, b)
		j, i := m.chanIdx(a), m.nick(b)
		if j >= 0 && i >= 0 && m.mem[i][j] {
			if i == 0 {
				m.delChan(j)
			} else {
				m.mem[i][j] = false
				if m.nChans(i) == 0 {
					m.dropNick(i)
				}
			}
		}
	case 12: // Wipe
		st.Wipe()
		for j := 0; j < vNC; j++ {
			if m.cOn[j] {
				m.delChan(j)
			}
		}
	case 13: // NewTracker (base case)
		nt := NewTracker(a)
		m2 := &vModel{}
		m2.nOn[0], m2.nName[0] = true, a
		vAgree(nt, m2, extra)
		vReach("end")
		return
	}
	if me := st.Me(); me != nil {
		vObserve("me", me.Nick+"\x00"+me.Ident+"\x00"+me.Host+"\x00"+me.Name)
	}
	for j := 0; j < vNC; j++ {
		if m.cOn[j] {
			if ch := st.GetChannel(m.cName[j]); ch != nil {
				vObserve("chan", ch.Name+"\x00"+ch.Topic+"\x00"+ch.Modes.Key)
			}
		}
	}
	vAgree(st, m, extra)
	vReach("end")
}
