//go:build verif && verifreplay

package state

import (
	"sync"
	"sync/atomic"
)

// Counting mutexes, used only for native replay: the runner compiles a
// temporary copy of the repository sources in which sync.Mutex / sync.RWMutex
// are replaced by these types, so that vLockAcquires / vLockHeld observe the
// real code's locking.

type Mutex struct {
	m    sync.Mutex
	n    int64
	held int64
}

func (m *Mutex) Lock()          { m.m.Lock(); atomic.AddInt64(&m.n, 1); atomic.StoreInt64(&m.held, 1) }
func (m *Mutex) Unlock()        { atomic.StoreInt64(&m.held, 0); m.m.Unlock() }
func (m *Mutex) vAcquires() int { return int(atomic.LoadInt64(&m.n)) }
func (m *Mutex) vHeld() bool    { return atomic.LoadInt64(&m.held) != 0 }

type RWMutex struct {
	m    sync.RWMutex
	n    int64
	held int64
}

func (m *RWMutex) Lock()          { m.m.Lock(); atomic.AddInt64(&m.n, 1); atomic.AddInt64(&m.held, 1) }
func (m *RWMutex) Unlock()        { atomic.AddInt64(&m.held, -1); m.m.Unlock() }
func (m *RWMutex) RLock()         { m.m.RLock(); atomic.AddInt64(&m.n, 1); atomic.AddInt64(&m.held, 1) }
func (m *RWMutex) RUnlock()       { atomic.AddInt64(&m.held, -1); m.m.RUnlock() }
func (m *RWMutex) vAcquires() int { return int(atomic.LoadInt64(&m.n)) }
func (m *RWMutex) vHeld() bool    { return atomic.LoadInt64(&m.held) != 0 }
