//go:build verif

package state

// Exported bridge for harnesses in package client (C13): a relational
// description of tracker contents, a builder that creates the real tracker
// heap directly from it, and a comparison through the public interface.

const VNN, VNC = vNN, vNC

type VModel struct {
	NOn   [vNN]bool
	NName [vNN]string
	NId   [vNN]string
	NHost [vNN]string
	NReal [vNN]string
	NMode [vNN]NickMode
	COn   [vNC]bool
	CName [vNC]string
	CTop  [vNC]string
	CMode [vNC]ChanMode
	Mem   [vNN][vNC]bool
	Priv  [vNN][vNC]ChanPrivs
}

func (v *VModel) internal() *vModel {
	return &vModel{nOn: v.NOn, nName: v.NName, nId: v.NId, nHost: v.NHost, nReal: v.NReal, nMode: v.NMode,
		cOn: v.COn, cName: v.CName, cTop: v.CTop, cMode: v.CMode, mem: v.Mem, priv: v.Priv}
}

// VBuildTracker creates a real tracker whose contents are exactly v.
func VBuildTracker(v *VModel) Tracker { return vBuild(v.internal()).st }

// VCheck asserts (labels GetNick, GetChannel, Me, IsOn, tracked-sets, invariant, ...)
// that the tracker answers every query as v says.
func VCheck(t Tracker, v *VModel, extra []string) {
	st, ok := t.(*stateTracker)
	vAssert(ok, "tracker-type")
	if ok {
		vAgree(st, v.internal(), extra)
	}
}

// VFailures: assertion failures recorded natively in this package (for replay).
func VFailures() []string {
	vMu.Lock()
	defer vMu.Unlock()
	return append([]string(nil), vFailures...)
}

// VAssertLog / VObsLog: what this package's harness code evaluated natively.
func VAssertLog() []string {
	vMu.Lock()
	defer vMu.Unlock()
	return append([]string(nil), vAssertLog...)
}
func VObsLog() []string { vMu.Lock(); defer vMu.Unlock(); return append([]string(nil), vObsLog...) }
