package sym

import (
	"math/rand"
	"testing"
)

// The narrowing rewrites must preserve meaning: build random terms with and
// without them and compare their values under random assignments.
func TestNarrowRewrites(t *testing.T) {
	rng := rand.New(rand.NewSource(1))
	for iter := 0; iter < 3000; iter++ {
		bn, br := NewBuilder(), NewBuilder()
		br.NoNarrow = true
		env := map[string]uint64{}
		var gen func(b *Builder, r *rand.Rand, d int) *Term
		gen = func(b *Builder, r *rand.Rand, d int) *Term {
			switch k := r.Intn(7); {
			case d == 0 || k == 0:
				w := []uint8{8, 16}[r.Intn(2)]
				name := []string{"a", "b", "c"}[r.Intn(3)] + string(rune('0'+w))
				return b.Sext(b.Var(name, w), 64)
			case k == 1:
				vals := []uint64{0, 1, 2, 3, 10, 127, 128, 255, 256, 32767, 32768, ^uint64(0), ^uint64(1), ^uint64(127), ^uint64(128), ^uint64(40000), 1 << 40}
				return b.Const(64, vals[r.Intn(len(vals))])
			case k == 2:
				return b.Bin(OAdd, gen(b, r, d-1), gen(b, r, d-1))
			case k == 3:
				c := b.Bin(OSlt, gen(b, r, d-1), gen(b, r, d-1))
				return b.Ite(c, gen(b, r, d-1), gen(b, r, d-1))
			case k == 4:
				c := b.Eq(gen(b, r, d-1), gen(b, r, d-1))
				return b.Ite(c, gen(b, r, d-1), gen(b, r, d-1))
			case k == 5:
				c := b.Bin(OSle, gen(b, r, d-1), gen(b, r, d-1))
				return b.Ite(c, gen(b, r, d-1), gen(b, r, d-1))
			default:
				return b.Bin(OSub, gen(b, r, d-1), gen(b, r, d-1))
			}
		}
		seed := rng.Int63()
		tn := gen(bn, rand.New(rand.NewSource(seed)), 4)
		tr := gen(br, rand.New(rand.NewSource(seed)), 4)
		for trial := 0; trial < 20; trial++ {
			for _, n := range []string{"a8", "b8", "c8", "a16", "b16", "c16"} {
				switch rng.Intn(4) {
				case 0:
					env[n] = uint64(rng.Intn(4))
				case 1:
					env[n] = ^uint64(0) - uint64(rng.Intn(3))
				default:
					env[n] = rng.Uint64()
				}
			}
			mk := func(b *Builder) map[int]uint64 {
				e := map[int]uint64{}
				for n, v := range env {
					if vt, ok := b.vars[n]; ok {
						e[vt.ID] = v
					}
				}
				return e
			}
			if a, c := Eval(tn, mk(bn)), Eval(tr, mk(br)); a != c {
				t.Fatalf("rewrite changed meaning: %s => %x vs %s => %x (env %v)", tn, a, tr, c, env)
			}
		}
	}
}
