package sym

import (
	"crypto/sha256"
	"fmt"
	"go/token"
	"go/types"
	"os"
	"path/filepath"
	"sort"
	"strings"
	"sync"
	"sync/atomic"

	"golang.org/x/tools/go/packages"
	"golang.org/x/tools/go/ssa"
	"golang.org/x/tools/go/ssa/ssautil"
)

// Program is the SSA form of /repo's working tree plus the overlay harnesses.
type Program struct {
	mutOnce    sync.Once
	mutFields  map[string]bool
	Fset       *token.FileSet
	Prog       *ssa.Program
	Pkgs       map[string]*ssa.Package // by import path
	RepoDir    string
	Overlay    map[string]string // virtual path -> real path
	mu         sync.Mutex
	crossN     int64
	CrossEvery int64
	errStrT    *types.Pointer
	rtErrT     types.Type
}

const repoMod = "github.com/fluffle/goirc"

// ExecPkgs are packages whose functions are executed from their SSA bodies.
var ExecPkgs = []string{repoMod, "github.com/emersion/go-sasl", "errors", "unicode/utf8", "bytes", "strings"}

// (bytes and strings: every function the code under test uses today has a model,
// which takes precedence; the SSA bodies are the fallback for the others, so a
// changed tree that calls e.g. bytes.Trim is still executed rather than refused.)

// Load type-checks and builds SSA for the repo packages with harness overlay.
func Load(repoDir, harnessDir string, patterns ...string) (*Program, error) {
	overlay := map[string][]byte{}
	ovPaths := map[string]string{}
	for _, sub := range []string{"client", "state"} {
		files, _ := filepath.Glob(filepath.Join(harnessDir, sub, "*.go"))
		for _, f := range files {
			if strings.HasSuffix(f, "_test.go") {
				continue
			}
			b, err := os.ReadFile(f)
			if err != nil {
				return nil, err
			}
			v := filepath.Join(repoDir, sub, filepath.Base(f))
			overlay[v] = b
			ovPaths[v] = f
		}
	}
	fset := token.NewFileSet()
	cfg := &packages.Config{
		Mode:       packages.LoadAllSyntax,
		Dir:        repoDir,
		Fset:       fset,
		Overlay:    overlay,
		BuildFlags: []string{"-tags=verif", "-mod=mod"},
		Env:        append(os.Environ(), "GOFLAGS=-mod=mod", "GOPROXY=off", "GOSUMDB=off", "GOTOOLCHAIN=local"),
	}
	if len(patterns) == 0 {
		patterns = []string{"./client", "./state", "./logging"}
	}
	pkgs, err := packages.Load(cfg, patterns...)
	if err != nil {
		return nil, err
	}
	var errs []string
	packages.Visit(pkgs, nil, func(p *packages.Package) {
		for _, e := range p.Errors {
			errs = append(errs, e.Error())
		}
	})
	if len(errs) > 0 {
		return nil, fmt.Errorf("load errors:\n%s", strings.Join(errs, "\n"))
	}
	prog, _ := ssautil.AllPackages(pkgs, ssa.InstantiateGenerics)
	p := &Program{Fset: fset, Prog: prog, Pkgs: map[string]*ssa.Package{}, RepoDir: repoDir, Overlay: ovPaths, CrossEvery: 50}
	for _, sp := range prog.AllPackages() {
		path := sp.Pkg.Path()
		p.Pkgs[path] = sp
		for _, e := range ExecPkgs {
			if path == e || strings.HasPrefix(path, e+"/") {
				sp.Build()
			}
		}
	}
	if ep := p.Pkgs["errors"]; ep != nil {
		if t := ep.Type("errorString"); t != nil {
			p.errStrT = types.NewPointer(t.Type())
		}
	}
	if rp := p.Pkgs["runtime"]; rp != nil {
		if t := rp.Type("errorString"); t != nil {
			p.rtErrT = t.Type()
		}
	}
	return p, nil
}

func (p *Program) errorStringType() *types.Pointer { return p.errStrT }
func (p *Program) runtimeErrorType() types.Type {
	if p.rtErrT != nil {
		return p.rtErrT
	}
	return types.Typ[types.String]
}

func (p *Program) crossSample() bool {
	if p.CrossEvery <= 0 {
		return false
	}
	return atomic.AddInt64(&p.crossN, 1)%p.CrossEvery == 0
}

func pkgPathOf(fn *ssa.Function) string {
	if fn.Pkg != nil {
		return fn.Pkg.Pkg.Path()
	}
	// synthetic wrappers: use the receiver / object package
	if o := fn.Object(); o != nil && o.Pkg() != nil {
		return o.Pkg().Path()
	}
	if fn.Parent() != nil {
		return pkgPathOf(fn.Parent())
	}
	return ""
}

func (p *Program) isHarnessPkg(pkg *ssa.Package) bool {
	if pkg == nil {
		return false
	}
	return strings.HasPrefix(pkg.Pkg.Path(), repoMod)
}

// executable reports whether fn's SSA body is interpreted.
func (p *Program) executable(fn *ssa.Function) bool {
	if fn.Blocks == nil {
		return false
	}
	path := pkgPathOf(fn)
	if path == "" {
		// wrappers/thunks/bounds with no package: always interpret (they just forward)
		return fn.Synthetic != ""
	}
	for _, e := range ExecPkgs {
		if path == e || strings.HasPrefix(path, e+"/") {
			return true
		}
	}
	// synthetic forwarding wrappers of other packages are fine to interpret:
	// the callee they reach is checked again.
	if fn.Synthetic != "" && (strings.HasPrefix(fn.Synthetic, "wrapper") || strings.HasPrefix(fn.Synthetic, "bound") || strings.HasPrefix(fn.Synthetic, "thunk")) {
		return true
	}
	return false
}

// initRuns reports whether a package initializer is interpreted.
func (p *Program) initRuns(fn *ssa.Function) bool {
	path := pkgPathOf(fn)
	return strings.HasPrefix(path, repoMod) || strings.HasPrefix(path, "github.com/emersion/go-sasl") || path == "unicode/utf8" || path == "bytes" || path == "strings"
}

func (p *Program) lookupMethod(t types.Type, m *types.Func) *ssa.Function {
	ms := p.Prog.MethodSets.MethodSet(t)
	sel := ms.Lookup(m.Pkg(), m.Name())
	if sel == nil {
		return nil
	}
	return p.Prog.MethodValue(sel)
}

// Func finds a package-level function by "pkgpath.Name".
func (p *Program) Func(pkgPath, name string) *ssa.Function {
	sp := p.Pkgs[pkgPath]
	if sp == nil {
		return nil
	}
	return sp.Func(name)
}

// FuncHash returns instruction count and a hash of the SSA text of fn.
func FuncHash(fn *ssa.Function) (int, string) {
	n := 0
	h := sha256.New()
	for _, b := range fn.Blocks {
		for _, in := range b.Instrs {
			n++
			fmt.Fprintf(h, "%d:%s\n", b.Index, in.String())
		}
	}
	return n, fmt.Sprintf("%x", h.Sum(nil)[:8])
}

// runInits executes the package initialisers of the interpreted packages.
func (ex *Exec) runInits() {
	for _, path := range []string{repoMod + "/logging", repoMod + "/state", repoMod + "/client"} {
		sp := ex.P.Pkgs[path]
		if sp == nil {
			continue
		}
		if init := sp.Func("init"); init != nil && init.Blocks != nil {
			ex.callSSA(nil, init, nil, nil)
		}
	}
}

// SourceSig turns "fn@file.go:123" into "fn:<trimmed source text of that line>",
// an identity that survives unrelated edits shifting line numbers.
func (p *Program) SourceSig(where string) string {
	at := strings.LastIndex(where, "@")
	if at < 0 {
		return where
	}
	fn, loc := where[:at], where[at+1:]
	c := strings.LastIndex(loc, ":")
	if c < 0 {
		return where
	}
	base := loc[:c]
	var line int
	fmt.Sscanf(loc[c+1:], "%d", &line)
	cands := []string{}
	for v, real := range p.Overlay {
		if filepath.Base(v) == base {
			cands = append(cands, real)
		}
	}
	for _, sub := range []string{"client", "state", "logging"} {
		cands = append(cands, filepath.Join(p.RepoDir, sub, base))
	}
	for _, f := range cands {
		b, err := os.ReadFile(f)
		if err != nil {
			continue
		}
		lines := strings.Split(string(b), "\n")
		if line >= 1 && line <= len(lines) {
			return fn + ":" + strings.Join(strings.Fields(lines[line-1]), " ")
		}
	}
	return fn + ":" + base
}

// ExportedConnMethodsSending lists exported methods of *client.Conn declared in
// commands.go, plus any exported method whose static call graph reaches
// (*Conn).Raw or sends on a channel directly (other than lifecycle methods).
func (p *Program) ExportedConnMethodsSending() []string {
	pkg := p.Pkgs[repoMod+"/client"]
	if pkg == nil {
		return nil
	}
	connT := pkg.Type("Conn")
	if connT == nil {
		return nil
	}
	ms := p.Prog.MethodSets.MethodSet(types.NewPointer(connT.Type()))
	reach := map[*ssa.Function]bool{}
	var reaches func(fn *ssa.Function, depth int) bool
	reaches = func(fn *ssa.Function, depth int) bool {
		if fn == nil || fn.Blocks == nil || depth > 6 {
			return false
		}
		if v, ok := reach[fn]; ok {
			return v
		}
		reach[fn] = false
		res := false
		for _, b := range fn.Blocks {
			for _, in := range b.Instrs {
				switch x := in.(type) {
				case *ssa.Send:
					res = true
				case ssa.CallInstruction:
					if callee := x.Common().StaticCallee(); callee != nil {
						if callee.Name() == "Raw" || (strings.HasPrefix(pkgPathOf(callee), repoMod) && reaches(callee, depth+1)) {
							res = true
						}
					}
				}
			}
		}
		reach[fn] = res
		return res
	}
	skip := map[string]bool{"Connect": true, "ConnectContext": true, "ConnectTo": true, "ConnectToContext": true, "Close": true,
		"EnableStateTracking": true, "DisableStateTracking": true, "LogPanic": true, "String": true}
	var out []string
	for i := 0; i < ms.Len(); i++ {
		sel := ms.At(i)
		name := sel.Obj().Name()
		if !sel.Obj().Exported() || skip[name] {
			continue
		}
		fn := p.Prog.MethodValue(sel)
		if fn == nil {
			continue
		}
		file := p.Fset.Position(fn.Pos()).Filename
		if strings.HasSuffix(file, "/commands.go") || reaches(fn, 0) {
			out = append(out, name)
		}
	}
	sort.Strings(out)
	return out
}

// mutableField reports whether field idx of struct type t is stored to anywhere in the
// code under test (so a read of it outside the owning lock races with that store).
func (p *Program) mutableField(t types.Type, idx int) bool {
	p.mutOnce.Do(func() {
		p.mutFields = map[string]bool{}
		for fn := range ssautil.AllFunctions(p.Prog) {
			if !strings.HasPrefix(pkgPathOf(fn), repoMod) || fn.Blocks == nil {
				continue
			}
			if fn.Pos().IsValid() && strings.Contains(p.Fset.Position(fn.Pos()).Filename, "zz_verif_") {
				continue
			}
			for _, b := range fn.Blocks {
				for _, in := range b.Instrs {
					st, ok := in.(*ssa.Store)
					if !ok {
						continue
					}
					fa, ok := st.Addr.(*ssa.FieldAddr)
					if !ok {
						continue
					}
					pt, ok := fa.X.Type().Underlying().(*types.Pointer)
					if !ok {
						continue
					}
					// a store into an object the same function has just allocated is construction, not mutation
					if _, fresh := fa.X.(*ssa.Alloc); fresh {
						continue
					}
					p.mutFields[fmt.Sprintf("%s#%d", pt.Elem().String(), fa.Field)] = true
				}
			}
		}
	})
	return p.mutFields[fmt.Sprintf("%s#%d", t.String(), idx)]
}
