// Package sym is a path-forking symbolic executor over go/ssa whose branch,
// assertion and panic-guard decisions are taken by an SMT solver.
package sym

import (
	"fmt"
	"math/bits"
	"sort"
	"strings"
)

// Op is a term constructor.
type Op uint8

const (
	OConst Op = iota
	OVar
	ONot
	OAnd
	OOr
	OEq
	OIte
	OAdd
	OSub
	OMul
	OUDiv
	OSDiv
	OURem
	OSRem
	OBAnd
	OBOr
	OBXor
	OShl
	OLShr
	OAShr
	OUlt
	OUle
	OSlt
	OSle
	OZext // val = target width
	OSext // val = target width
	OExtr // val = lo (result width = w)
	OBNot
	ONeg
	OAndNot // x &^ y
)

var opSMT = map[Op]string{
	ONot: "not", OAnd: "and", OOr: "or", OEq: "=", OIte: "ite",
	OAdd: "bvadd", OSub: "bvsub", OMul: "bvmul", OUDiv: "bvudiv", OSDiv: "bvsdiv",
	OURem: "bvurem", OSRem: "bvsrem", OBAnd: "bvand", OBOr: "bvor", OBXor: "bvxor",
	OShl: "bvshl", OLShr: "bvlshr", OAShr: "bvashr", OUlt: "bvult", OUle: "bvule",
	OSlt: "bvslt", OSle: "bvsle", OBNot: "bvnot", ONeg: "bvneg",
}

// Term is an immutable, hash-consed SMT term. W == 0 means Bool, otherwise
// a bit-vector of width W (8, 16, 32 or 64).
type Term struct {
	ID   int
	Op   Op
	W    uint8
	Args []*Term
	Val  uint64 // constant value / extract lo / var index
	Name string // variable name
	vars []int  // sorted ids of free variables (var terms' IDs)
}

func (t *Term) IsConst() bool { return t.Op == OConst }
func (t *Term) IsBool() bool  { return t.W == 0 }

// Builder interns terms. One Builder per explorer (not goroutine-safe).
type Builder struct {
	tab      map[string]*Term
	terms    []*Term
	vars     map[string]*Term
	umask    map[int]umaskEntry
	SatCache map[string]SatResult
	NoNarrow bool
	True     *Term
	False    *Term
}

func NewBuilder() *Builder {
	b := &Builder{tab: map[string]*Term{}, vars: map[string]*Term{}, umask: map[int]umaskEntry{}, SatCache: map[string]SatResult{}}
	b.False = b.Const(0, 0)
	b.True = b.Const(0, 1)
	return b
}

func mask(w uint8) uint64 {
	if w >= 64 {
		return ^uint64(0)
	}
	if w == 0 {
		return 1
	}
	return (uint64(1) << w) - 1
}

func (b *Builder) intern(op Op, w uint8, val uint64, name string, args ...*Term) *Term {
	var sb strings.Builder
	fmt.Fprintf(&sb, "%d|%d|%d|%s", op, w, val, name)
	for _, a := range args {
		fmt.Fprintf(&sb, "|%d", a.ID)
	}
	k := sb.String()
	if t, ok := b.tab[k]; ok {
		return t
	}
	t := &Term{ID: len(b.terms), Op: op, W: w, Val: val, Name: name}
	if len(args) > 0 {
		t.Args = append([]*Term(nil), args...)
	}
	// free variables
	switch {
	case op == OVar:
		t.vars = []int{t.ID}
	case len(args) == 1:
		t.vars = args[0].vars
	case len(args) > 1:
		n := 0
		for _, a := range args {
			n += len(a.vars)
		}
		if n > 0 {
			m := make([]int, 0, n)
			for _, a := range args {
				m = append(m, a.vars...)
			}
			sort.Ints(m)
			j := 0
			for i, v := range m {
				if i == 0 || v != m[i-1] {
					m[j] = v
					j++
				}
			}
			t.vars = m[:j]
		}
	}
	b.tab[k] = t
	b.terms = append(b.terms, t)
	return t
}

func (b *Builder) Const(w uint8, v uint64) *Term {
	return b.intern(OConst, w, v&mask(w), "")
}
func (b *Builder) Bool(v bool) *Term {
	if v {
		return b.True
	}
	return b.False
}

// Var returns the variable with this name (created on first use).
func (b *Builder) Var(name string, w uint8) *Term {
	if t, ok := b.vars[name]; ok {
		if t.W != w {
			panic("var sort clash " + name)
		}
		return t
	}
	t := b.intern(OVar, w, 0, name)
	b.vars[name] = t
	return t
}

func (b *Builder) TermByID(id int) *Term { return b.terms[id] }

func sx(v uint64, w uint8) int64 {
	if w >= 64 {
		return int64(v)
	}
	sh := 64 - uint(w)
	return int64(v<<sh) >> sh
}

// evalOp computes an operator on constant arguments.
func evalOp(op Op, w uint8, val uint64, a []uint64, aw uint8) uint64 {
	m := mask(w)
	switch op {
	case ONot:
		return a[0] ^ 1
	case OAnd:
		r := uint64(1)
		for _, x := range a {
			r &= x
		}
		return r
	case OOr:
		r := uint64(0)
		for _, x := range a {
			r |= x
		}
		return r
	case OEq:
		if a[0] == a[1] {
			return 1
		}
		return 0
	case OIte:
		if a[0] != 0 {
			return a[1]
		}
		return a[2]
	case OAdd:
		return (a[0] + a[1]) & m
	case OSub:
		return (a[0] - a[1]) & m
	case OMul:
		return (a[0] * a[1]) & m
	case OUDiv:
		if a[1] == 0 {
			return m
		}
		return (a[0] / a[1]) & m
	case OURem:
		if a[1] == 0 {
			return a[0]
		}
		return (a[0] % a[1]) & m
	case OSDiv:
		x, y := sx(a[0], w), sx(a[1], w)
		if y == 0 {
			if x < 0 {
				return 1
			}
			return m
		}
		if y == -1 {
			return uint64(-x) & m
		}
		return uint64(x/y) & m
	case OSRem:
		x, y := sx(a[0], w), sx(a[1], w)
		if y == 0 {
			return a[0]
		}
		if y == -1 {
			return 0
		}
		return uint64(x%y) & m
	case OBAnd:
		return a[0] & a[1]
	case OBOr:
		return a[0] | a[1]
	case OBXor:
		return a[0] ^ a[1]
	case OAndNot:
		return a[0] &^ a[1]
	case OShl:
		if a[1] >= uint64(w) {
			return 0
		}
		return (a[0] << a[1]) & m
	case OLShr:
		if a[1] >= uint64(w) {
			return 0
		}
		return a[0] >> a[1]
	case OAShr:
		x := sx(a[0], w)
		s := a[1]
		if s >= uint64(w) {
			s = uint64(w) - 1
		}
		return uint64(x>>s) & m
	case OUlt:
		if a[0] < a[1] {
			return 1
		}
		return 0
	case OUle:
		if a[0] <= a[1] {
			return 1
		}
		return 0
	case OSlt:
		if sx(a[0], aw) < sx(a[1], aw) {
			return 1
		}
		return 0
	case OSle:
		if sx(a[0], aw) <= sx(a[1], aw) {
			return 1
		}
		return 0
	case OZext:
		return a[0]
	case OSext:
		return uint64(sx(a[0], aw)) & m
	case OExtr:
		return (a[0] >> val) & m
	case OBNot:
		return ^a[0] & m
	case ONeg:
		return (-a[0]) & m
	}
	panic(fmt.Sprintf("evalOp %d", op))
}

// mk builds op(args) with constant folding and light simplification.
func (b *Builder) mk(op Op, w uint8, val uint64, args ...*Term) *Term {
	allc := true
	for _, a := range args {
		if a.Op != OConst {
			allc = false
			break
		}
	}
	if allc {
		vs := make([]uint64, len(args))
		for i, a := range args {
			vs[i] = a.Val
		}
		aw := uint8(0)
		if len(args) > 0 {
			aw = args[0].W
		}
		return b.Const(w, evalOp(op, w, val, vs, aw))
	}
	return b.intern(op, w, val, "", args...)
}

func (b *Builder) Not(x *Term) *Term {
	if x.Op == ONot {
		return x.Args[0]
	}
	return b.mk(ONot, 0, 0, x)
}

func (b *Builder) And(xs ...*Term) *Term {
	var out []*Term
	for _, x := range xs {
		if x.Op == OConst {
			if x.Val == 0 {
				return b.False
			}
			continue
		}
		if x.Op == OAnd {
			out = append(out, x.Args...)
			continue
		}
		out = append(out, x)
	}
	// dedupe, detect x & !x
	seen := map[int]bool{}
	j := 0
	for _, x := range out {
		if seen[x.ID] {
			continue
		}
		seen[x.ID] = true
		out[j] = x
		j++
	}
	out = out[:j]
	for _, x := range out {
		if x.Op == ONot && seen[x.Args[0].ID] {
			return b.False
		}
	}
	switch len(out) {
	case 0:
		return b.True
	case 1:
		return out[0]
	}
	return b.intern(OAnd, 0, 0, "", out...)
}

func (b *Builder) Or(xs ...*Term) *Term {
	var out []*Term
	for _, x := range xs {
		if x.Op == OConst {
			if x.Val == 1 {
				return b.True
			}
			continue
		}
		if x.Op == OOr {
			out = append(out, x.Args...)
			continue
		}
		out = append(out, x)
	}
	seen := map[int]bool{}
	j := 0
	for _, x := range out {
		if seen[x.ID] {
			continue
		}
		seen[x.ID] = true
		out[j] = x
		j++
	}
	out = out[:j]
	for _, x := range out {
		if x.Op == ONot && seen[x.Args[0].ID] {
			return b.True
		}
	}
	switch len(out) {
	case 0:
		return b.False
	case 1:
		return out[0]
	}
	return b.intern(OOr, 0, 0, "", out...)
}

func (b *Builder) Implies(x, y *Term) *Term { return b.Or(b.Not(x), y) }

func (b *Builder) Eq(x, y *Term) *Term {
	if x.W != y.W {
		panic(fmt.Sprintf("Eq sort mismatch %d %d", x.W, y.W))
	}
	if x == y {
		return b.True
	}
	if x.Op == OConst && y.Op == OConst {
		return b.Bool(x.Val == y.Val)
	}
	if x.W == 0 {
		if x.Op == OConst {
			x, y = y, x
		}
		if y.Op == OConst {
			if y.Val == 1 {
				return x
			}
			return b.Not(x)
		}
	}
	if !b.NoNarrow {
		if x.Op == OConst {
			x, y = y, x
		}
		if x.Op == OSext {
			a := x.Args[0]
			if y.Op == OSext && y.Args[0].W == a.W {
				return b.Eq(a, y.Args[0])
			}
			if y.Op == OConst {
				if fitsSigned(y.Val, y.W, a.W) {
					return b.Eq(a, b.Const(a.W, y.Val))
				}
				return b.False
			}
		}
	}
	if x.ID > y.ID {
		x, y = y, x
	}
	return b.intern(OEq, 0, 0, "", x, y)
}

func (b *Builder) Ite(c, x, y *Term) *Term {
	if c.Op == OConst {
		if c.Val == 1 {
			return x
		}
		return y
	}
	if x == y {
		return x
	}
	if x.W != 0 && !b.NoNarrow {
		if x.Op == OSext && y.Op == OSext && x.Args[0].W == y.Args[0].W {
			return b.mk(OSext, x.W, uint64(x.W), b.Ite(c, x.Args[0], y.Args[0]))
		}
		if x.Op == OSext && y.Op == OConst && fitsSigned(y.Val, y.W, x.Args[0].W) {
			return b.mk(OSext, x.W, uint64(x.W), b.Ite(c, x.Args[0], b.Const(x.Args[0].W, y.Val)))
		}
		if y.Op == OSext && x.Op == OConst && fitsSigned(x.Val, x.W, y.Args[0].W) {
			return b.mk(OSext, y.W, uint64(y.W), b.Ite(c, b.Const(y.Args[0].W, x.Val), y.Args[0]))
		}
	}
	if x.W == 0 {
		if x.Op == OConst && y.Op == OConst {
			if x.Val == 1 {
				return c
			}
			return b.Not(c)
		}
		if x.Op == OConst {
			if x.Val == 1 {
				return b.Or(c, y)
			}
			return b.And(b.Not(c), y)
		}
		if y.Op == OConst {
			if y.Val == 1 {
				return b.Or(b.Not(c), x)
			}
			return b.And(c, x)
		}
	}
	return b.intern(OIte, x.W, 0, "", c, x, y)
}

func (b *Builder) Bin(op Op, x, y *Term) *Term {
	if x.W != y.W {
		panic(fmt.Sprintf("Bin %d sort mismatch %d %d", op, x.W, y.W))
	}
	w := x.W
	switch op {
	case OUlt, OUle, OSlt, OSle:
		if x == y {
			return b.Bool(op == OUle || op == OSle)
		}
		if (op == OSlt || op == OSle) && !b.NoNarrow {
			if r := b.narrowCmp(op, x, y); r != nil {
				return r
			}
		}
		return b.mk(op, 0, 0, x, y)
	case OAdd:
		if x.Op == OConst && x.Val == 0 {
			return y
		}
		if y.Op == OConst && y.Val == 0 {
			return x
		}
		if !b.NoNarrow {
			if x.Op == OConst {
				x, y = y, x
			}
			// sext_w(a) + k  ==  sext(sext_2w(a) + k) when k is small: no overflow in 2w bits
			if x.Op == OSext && y.Op == OConst && x.Args[0].W <= 16 && x.W > 2*x.Args[0].W {
				aw := x.Args[0].W
				if fitsSigned(y.Val, y.W, aw) {
					w2 := 2 * aw
					sum := b.mk(OAdd, w2, 0, b.Sext(x.Args[0], w2), b.Const(w2, y.Val))
					return b.mk(OSext, x.W, uint64(x.W), sum)
				}
			}
		}
	case OSub:
		if y.Op == OConst && y.Val == 0 {
			return x
		}
		if x == y {
			return b.Const(w, 0)
		}
	case OAndNot:
		return b.Bin(OBAnd, x, b.mk(OBNot, w, 0, y))
	}
	return b.mk(op, w, 0, x, y)
}

// fitsSigned reports whether the w-bit constant v is representable as a signed n-bit value.
func fitsSigned(v uint64, w, n uint8) bool {
	s := sx(v, w)
	lim := int64(1) << (n - 1)
	return s >= -lim && s < lim
}

// narrowCmp rewrites signed comparisons of sign-extended operands to the narrow width.
func (b *Builder) narrowCmp(op Op, x, y *Term) *Term {
	if x.Op == OSext && y.Op == OSext && x.Args[0].W == y.Args[0].W {
		return b.Bin(op, x.Args[0], y.Args[0])
	}
	if x.Op == OSext && y.Op == OConst {
		a := x.Args[0]
		if fitsSigned(y.Val, y.W, a.W) {
			return b.Bin(op, a, b.Const(a.W, y.Val))
		}
		return b.Bool(sx(y.Val, y.W) > 0) // a < huge positive: true; a < very negative: false
	}
	if y.Op == OSext && x.Op == OConst {
		a := y.Args[0]
		if fitsSigned(x.Val, x.W, a.W) {
			return b.Bin(op, b.Const(a.W, x.Val), a)
		}
		return b.Bool(sx(x.Val, x.W) < 0)
	}
	return nil
}

func (b *Builder) Un(op Op, x *Term) *Term { return b.mk(op, x.W, 0, x) }

func (b *Builder) Zext(x *Term, w uint8) *Term {
	if x.W == w {
		return x
	}
	if x.W > w {
		return b.mk(OExtr, w, 0, x)
	}
	return b.mk(OZext, w, uint64(w), x)
}
func (b *Builder) Sext(x *Term, w uint8) *Term {
	if x.W == w {
		return x
	}
	if x.W > w {
		return b.mk(OExtr, w, 0, x)
	}
	return b.mk(OSext, w, uint64(w), x)
}

// Eval evaluates t under env (var term ID -> value). Missing vars are 0.
func Eval(t *Term, env map[int]uint64) uint64 {
	memo := map[int]uint64{}
	return eval1(t, env, memo)
}

func eval1(t *Term, env map[int]uint64, memo map[int]uint64) uint64 {
	switch t.Op {
	case OConst:
		return t.Val
	case OVar:
		return env[t.ID] & mask(t.W)
	}
	if v, ok := memo[t.ID]; ok {
		return v
	}
	var v uint64
	switch t.Op {
	case OAnd:
		v = 1
		for _, a := range t.Args {
			if eval1(a, env, memo) == 0 {
				v = 0
				break
			}
		}
	case OOr:
		v = 0
		for _, a := range t.Args {
			if eval1(a, env, memo) == 1 {
				v = 1
				break
			}
		}
	case OIte:
		if eval1(t.Args[0], env, memo) == 1 {
			v = eval1(t.Args[1], env, memo)
		} else {
			v = eval1(t.Args[2], env, memo)
		}
	default:
		var buf [3]uint64
		as := buf[:len(t.Args)]
		for i, a := range t.Args {
			as[i] = eval1(a, env, memo)
		}
		v = evalOp(t.Op, t.W, t.Val, as, t.Args[0].W)
	}
	memo[t.ID] = v
	return v
}

// Mask256 is a set of byte values.
type Mask256 [4]uint64

func (m *Mask256) Has(v uint8) bool { return m[v>>6]&(1<<(v&63)) != 0 }
func (m *Mask256) Set(v uint8)      { m[v>>6] |= 1 << (v & 63) }
func (m Mask256) And(o Mask256) Mask256 {
	return Mask256{m[0] & o[0], m[1] & o[1], m[2] & o[2], m[3] & o[3]}
}
func (m Mask256) Not() Mask256 { return Mask256{^m[0], ^m[1], ^m[2], ^m[3]} }
func (m Mask256) Empty() bool  { return m[0]|m[1]|m[2]|m[3] == 0 }
func (m Mask256) Count() int {
	return bits.OnesCount64(m[0]) + bits.OnesCount64(m[1]) + bits.OnesCount64(m[2]) + bits.OnesCount64(m[3])
}
func (m Mask256) First() (uint8, bool) {
	for i := 0; i < 4; i++ {
		if m[i] != 0 {
			return uint8(i*64 + bits.TrailingZeros64(m[i])), true
		}
	}
	return 0, false
}

var FullMask = Mask256{^uint64(0), ^uint64(0), ^uint64(0), ^uint64(0)}

type umaskEntry struct {
	v  int
	m  Mask256
	ok bool
}

// UnaryMask computes (memoised), for a Bool term over exactly one 8-bit (or Bool)
// variable, the set of variable values that make it true.
func (b *Builder) UnaryMask(t *Term) (varID int, m Mask256, ok bool) {
	if len(t.vars) != 1 || t.W != 0 {
		return 0, m, false
	}
	if e, hit := b.umask[t.ID]; hit {
		return e.v, e.m, e.ok
	}
	varID, m, ok = b.unaryMask(t)
	b.umask[t.ID] = umaskEntry{varID, m, ok}
	return
}

func (b *Builder) unaryMask(t *Term) (varID int, m Mask256, ok bool) {
	v := b.terms[t.vars[0]]
	if v.W != 8 && v.W != 0 {
		return 0, m, false
	}
	n := 256
	if v.W == 0 {
		n = 2
	}
	env := map[int]uint64{}
	for i := 0; i < n; i++ {
		env[v.ID] = uint64(i)
		if Eval(t, env) == 1 {
			m.Set(uint8(i))
		}
	}
	return v.ID, m, true
}

func sortSMT(w uint8) string {
	if w == 0 {
		return "Bool"
	}
	return fmt.Sprintf("(_ BitVec %d)", w)
}

func constSMT(t *Term) string {
	if t.W == 0 {
		if t.Val == 1 {
			return "true"
		}
		return "false"
	}
	if t.W%4 == 0 {
		return fmt.Sprintf("#x%0*x", int(t.W/4), t.Val)
	}
	return fmt.Sprintf("(_ bv%d %d)", t.Val, t.W)
}

func varSMT(t *Term) string { return "|" + t.Name + "|" }

// SMTPrinter emits declarations / definitions for a set of terms.
type SMTPrinter struct {
	sb    strings.Builder
	done  map[int]bool
	decls []*Term
}

func NewSMTPrinter() *SMTPrinter { return &SMTPrinter{done: map[int]bool{}} }

func (p *SMTPrinter) ref(t *Term) string {
	switch t.Op {
	case OConst:
		return constSMT(t)
	case OVar:
		return varSMT(t)
	}
	return fmt.Sprintf("t%d", t.ID)
}

// Define makes sure t (and its sub-terms) are declared/defined.
func (p *SMTPrinter) Define(t *Term) string {
	if t.Op == OConst {
		return constSMT(t)
	}
	if p.done[t.ID] {
		return p.ref(t)
	}
	// iterative post-order to avoid deep recursion
	type fr struct {
		t *Term
		i int
	}
	st := []fr{{t, 0}}
	for len(st) > 0 {
		f := &st[len(st)-1]
		if f.t.Op == OConst || p.done[f.t.ID] {
			st = st[:len(st)-1]
			continue
		}
		if f.i < len(f.t.Args) {
			a := f.t.Args[f.i]
			f.i++
			if a.Op != OConst && !p.done[a.ID] {
				st = append(st, fr{a, 0})
			}
			continue
		}
		tt := f.t
		st = st[:len(st)-1]
		p.done[tt.ID] = true
		if tt.Op == OVar {
			fmt.Fprintf(&p.sb, "(declare-const %s %s)\n", varSMT(tt), sortSMT(tt.W))
			p.decls = append(p.decls, tt)
			continue
		}
		fmt.Fprintf(&p.sb, "(define-fun t%d () %s ", tt.ID, sortSMT(tt.W))
		switch tt.Op {
		case OZext:
			fmt.Fprintf(&p.sb, "((_ zero_extend %d) %s)", int(tt.W)-int(tt.Args[0].W), p.ref(tt.Args[0]))
		case OSext:
			fmt.Fprintf(&p.sb, "((_ sign_extend %d) %s)", int(tt.W)-int(tt.Args[0].W), p.ref(tt.Args[0]))
		case OExtr:
			fmt.Fprintf(&p.sb, "((_ extract %d %d) %s)", int(tt.Val)+int(tt.W)-1, tt.Val, p.ref(tt.Args[0]))
		default:
			p.sb.WriteString("(" + opSMT[tt.Op])
			for _, a := range tt.Args {
				p.sb.WriteString(" " + p.ref(a))
			}
			p.sb.WriteString(")")
		}
		p.sb.WriteString(")\n")
	}
	return p.ref(t)
}

func (p *SMTPrinter) Assert(t *Term) {
	r := p.Define(t)
	fmt.Fprintf(&p.sb, "(assert %s)\n", r)
}

func (p *SMTPrinter) String() string { return p.sb.String() }
func (p *SMTPrinter) Vars() []*Term  { return p.decls }

// String renders a term compactly for diagnostics.
func (t *Term) String() string {
	switch t.Op {
	case OConst:
		return constSMT(t)
	case OVar:
		return t.Name
	}
	var sb strings.Builder
	name := opSMT[t.Op]
	if name == "" {
		name = fmt.Sprintf("op%d[%d]", t.Op, t.Val)
	}
	sb.WriteString("(" + name)
	for _, a := range t.Args {
		sb.WriteString(" ")
		s := a.String()
		if len(s) > 200 {
			s = s[:200] + "…"
		}
		sb.WriteString(s)
	}
	sb.WriteString(")")
	return sb.String()
}
