package sym

import (
	"fmt"
	"go/types"
	"strings"

	"golang.org/x/tools/go/ssa"
)

// Value is a runtime value of the symbolic interpreter. All values are
// immutable; mutation happens only by replacing Object.V (functional update).
//
//	*Term          bool and integers (bit-vectors)
//	*Str           string with concrete length, symbolic bytes
//	*Ptr           pointer (Obj == nil: nil pointer)
//	*Slice         slice
//	*StructV       struct value
//	*ArrayV        array value
//	*Iface         interface value (T == nil: nil interface)
//	*Func          function value (nil function: all fields nil)
//	*Map           map reference (M == nil: nil map)
//	*Chan          channel reference
//	Tuple          multiple results
//	*Opaque        value of a type the executor does not interpret
type Value interface{}

type Str struct{ B []*Term }

type Object struct {
	ID    int
	V     Value
	T     types.Type // element type
	Label string
	Ghost interface{} // model state (mutex, waitgroup, …)
}

type Ptr struct {
	Obj  *Object
	Path []int
}

type Slice struct {
	Arr           *Object // Arr.V is *ArrayV
	Off, Len, Cap int
	Nil           bool
}

type StructV struct{ F []Value }
type ArrayV struct{ E []Value }

type Iface struct {
	T types.Type
	V Value
}

type Func struct {
	Fn      *ssa.Function
	Env     []Value
	Builtin *ssa.Builtin
	Model   func(ex *Exec, fr *frame, args []Value) Value // model closure (e.g. a context cancel func)
}

type MapEntry struct {
	K, V Value
}
type MapObj struct {
	ID      int
	Entries []MapEntry
	KT, VT  types.Type
	Gen     int
}
type Map struct{ M *MapObj }

type ChanObj struct {
	ID          int
	Buf         []Value
	Cap         int
	Closed      bool
	ET          types.Type
	Label       string
	taken       int // values received so far (rendezvous bookkeeping)
	sendWaiting int
	timerD      *Term // time.Timer channels: the duration the timer was last armed with ...
	timerArm    *Term // ... and the model clock at that moment
}
type Chan struct{ C *ChanObj }

type Tuple []Value

type Opaque struct {
	T    types.Type
	Note string
}

// mapIter is the state of a range-over-map / range-over-string.
type mapIter struct {
	m    *MapObj
	keys []Value
	i    int
	str  *Str
}

func (s *Str) Len() int { return len(s.B) }

// Concrete returns the Go string if every byte is constant.
func (s *Str) Concrete() (string, bool) {
	bs := make([]byte, len(s.B))
	for i, t := range s.B {
		if t.Op != OConst {
			return "", false
		}
		bs[i] = byte(t.Val)
	}
	return string(bs), true
}

func (ex *Exec) mkStr(s string) *Str {
	r := &Str{B: make([]*Term, len(s))}
	for i := 0; i < len(s); i++ {
		r.B[i] = ex.B.Const(8, uint64(s[i]))
	}
	return r
}

func (ex *Exec) mkInt(t types.Type, v int64) *Term { return ex.B.Const(widthOf(t), uint64(v)) }
func (ex *Exec) i64(v int64) *Term                 { return ex.B.Const(64, uint64(v)) }

func widthOf(t types.Type) uint8 {
	switch b := t.Underlying().(type) {
	case *types.Basic:
		switch b.Kind() {
		case types.Bool, types.UntypedBool:
			return 0
		case types.Int8, types.Uint8:
			return 8
		case types.Int16, types.Uint16:
			return 16
		case types.Int32, types.Uint32, types.UntypedRune:
			return 32
		case types.Int, types.Uint, types.Int64, types.Uint64, types.Uintptr, types.UntypedInt:
			return 64
		}
	}
	return 255
}

func isSigned(t types.Type) bool {
	if b, ok := t.Underlying().(*types.Basic); ok {
		return b.Info()&types.IsUnsigned == 0 && b.Info()&types.IsInteger != 0
	}
	return false
}

func isString(t types.Type) bool {
	b, ok := t.Underlying().(*types.Basic)
	return ok && b.Info()&types.IsString != 0
}

// zero returns the zero value of a type.
func (ex *Exec) zero(t types.Type) Value {
	switch u := t.Underlying().(type) {
	case *types.Basic:
		if u.Info()&types.IsString != 0 {
			return &Str{}
		}
		w := widthOf(u)
		if w != 255 {
			return ex.B.Const(w, 0)
		}
		if u.Kind() == types.UnsafePointer {
			return &Ptr{}
		}
		if u.Kind() == types.UntypedNil {
			return &Ptr{}
		}
		return &Opaque{T: t, Note: "zero"}
	case *types.Pointer:
		return &Ptr{}
	case *types.Slice:
		return &Slice{Nil: true}
	case *types.Struct:
		s := &StructV{F: make([]Value, u.NumFields())}
		for i := range s.F {
			s.F[i] = ex.zero(u.Field(i).Type())
		}
		return s
	case *types.Array:
		a := &ArrayV{E: make([]Value, u.Len())}
		if u.Len() > 0 {
			z := ex.zero(u.Elem())
			for i := range a.E {
				a.E[i] = z
			}
		}
		return a
	case *types.Interface:
		return &Iface{}
	case *types.Signature:
		return &Func{}
	case *types.Map:
		return &Map{}
	case *types.Chan:
		return &Chan{}
	case *types.Tuple:
		tp := make(Tuple, u.Len())
		for i := range tp {
			tp[i] = ex.zero(u.At(i).Type())
		}
		return tp
	}
	return &Opaque{T: t, Note: "zero"}
}

func (ex *Exec) newObject(t types.Type, v Value, label string) *Object {
	ex.nextObj++
	return &Object{ID: ex.nextObj, V: v, T: t, Label: label}
}

// load reads the value at a pointer.
// guard checks a watched access against its mutex (lock-discipline monitor).
func (ex *Exec) guard(g *mutexGhost, write bool, what string) {
	if g == nil || !ex.watchOn || ex.spec > 0 {
		return
	}
	if g.writer || (!write && g.readers > 0) {
		return
	}
	kind := "unguarded-read"
	if write {
		kind = "unguarded-write"
	}
	ex.logEvent("unguarded", nil)
	ex.X.Deadlocks[kind+" of "+what+" at "+ex.where(ex.X.curFrame)]++
}

func (ex *Exec) load(p *Ptr) Value {
	if p.Obj == nil {
		ex.goPanicRuntime("nil pointer dereference")
	}

	v := p.Obj.V
	for _, i := range p.Path {
		switch a := v.(type) {
		case *StructV:
			v = a.F[i]
		case *ArrayV:
			v = a.E[i]
		default:
			panic(fmt.Sprintf("load: bad path through %T", v))
		}
	}
	return v
}

func updatePath(v Value, path []int, nv Value) Value {
	if len(path) == 0 {
		return nv
	}
	switch a := v.(type) {
	case *StructV:
		c := &StructV{F: append([]Value(nil), a.F...)}
		c.F[path[0]] = updatePath(a.F[path[0]], path[1:], nv)
		return c
	case *ArrayV:
		if len(path) == 1 {
			// in-place fast path is unsafe (values are shared); copy.
			c := &ArrayV{E: append([]Value(nil), a.E...)}
			c.E[path[0]] = nv
			return c
		}
		c := &ArrayV{E: append([]Value(nil), a.E...)}
		c.E[path[0]] = updatePath(a.E[path[0]], path[1:], nv)
		return c
	}
	panic(fmt.Sprintf("store: bad path through %T", v))
}

func (ex *Exec) store(p *Ptr, v Value) {
	if p.Obj == nil {
		ex.goPanicRuntime("nil pointer dereference")
	}
	if ex.watchObj != nil {
		ex.guard(ex.watchObj[p.Obj], true, p.Obj.Label)
	}
	p.Obj.V = updatePath(p.Obj.V, p.Path, v)
}

func ptrEq(a, b *Ptr) bool {
	if a.Obj != b.Obj {
		return false
	}
	if a.Obj == nil {
		return true
	}
	if len(a.Path) != len(b.Path) {
		return false
	}
	for i := range a.Path {
		if a.Path[i] != b.Path[i] {
			return false
		}
	}
	return true
}

// describe renders a value for diagnostics / evidence samples.
func describe(v Value) string {
	switch x := v.(type) {
	case nil:
		return "<nil>"
	case *Term:
		return x.String()
	case *Str:
		if s, ok := x.Concrete(); ok {
			return fmt.Sprintf("%q", s)
		}
		var sb strings.Builder
		sb.WriteString("str[")
		for i, b := range x.B {
			if i > 0 {
				sb.WriteString(" ")
			}
			if b.Op == OConst {
				fmt.Fprintf(&sb, "%q", rune(b.Val))
			} else {
				s := b.String()
				if len(s) > 24 {
					s = s[:24] + "…"
				}
				sb.WriteString(s)
			}
		}
		sb.WriteString("]")
		return sb.String()
	case *Ptr:
		if x.Obj == nil {
			return "nil"
		}
		return fmt.Sprintf("&obj%d%v", x.Obj.ID, x.Path)
	case *Slice:
		if x.Nil {
			return "nil-slice"
		}
		var parts []string
		arr := x.Arr.V.(*ArrayV)
		for i := 0; i < x.Len && i < 20; i++ {
			parts = append(parts, describe(arr.E[x.Off+i]))
		}
		return "[" + strings.Join(parts, ", ") + "]"
	case *StructV:
		var parts []string
		for _, f := range x.F {
			parts = append(parts, describe(f))
		}
		return "{" + strings.Join(parts, ", ") + "}"
	case *Iface:
		if x.T == nil {
			return "nil-iface"
		}
		return fmt.Sprintf("iface(%s:%s)", x.T, describe(x.V))
	case *Func:
		if x.Fn != nil {
			return "func " + x.Fn.String()
		}
		return "func?"
	case *Map:
		if x.M == nil {
			return "nil-map"
		}
		var parts []string
		for _, e := range x.M.Entries {
			parts = append(parts, describe(e.K)+":"+describe(e.V))
		}
		return "map[" + strings.Join(parts, ", ") + "]"
	case Tuple:
		var parts []string
		for _, f := range x {
			parts = append(parts, describe(f))
		}
		return "(" + strings.Join(parts, ", ") + ")"
	}
	return fmt.Sprintf("%T", v)
}
