package sym

import (
	"fmt"
	"go/token"
	"go/types"
	"unicode/utf8"

	"golang.org/x/tools/go/ssa"
)

func (ex *Exec) visit(fr *frame, instr ssa.Instruction) {
	switch in := instr.(type) {
	case *ssa.DebugRef:
	case *ssa.UnOp:
		fr.env[in] = ex.unop(fr, in)
	case *ssa.BinOp:
		fr.env[in] = ex.binop(fr, in.Op, in.X.Type(), ex.get(fr, in.X), ex.get(fr, in.Y))
	case *ssa.Call:
		f, args := ex.prepareCall(fr, &in.Call)
		fr.env[in] = ex.call(fr, f, args, in)
	case *ssa.ChangeInterface:
		fr.env[in] = ex.get(fr, in.X)
	case *ssa.ChangeType:
		fr.env[in] = ex.get(fr, in.X)
	case *ssa.Convert:
		fr.env[in] = ex.convert(fr, in.X.Type(), in.Type(), ex.get(fr, in.X))
	case *ssa.SliceToArrayPointer:
		ex.unsupported(fr, "SliceToArrayPointer")
	case *ssa.MultiConvert:
		ex.unsupported(fr, "MultiConvert")
	case *ssa.MakeInterface:
		fr.env[in] = &Iface{T: in.X.Type(), V: ex.get(fr, in.X)}
	case *ssa.Extract:
		fr.env[in] = ex.get(fr, in.Tuple).(Tuple)[in.Index]
	case *ssa.Slice:
		fr.env[in] = ex.sliceOp(fr, in)
	case *ssa.Store:
		ex.store(ex.get(fr, in.Addr).(*Ptr), ex.get(fr, in.Val))
	case *ssa.Alloc:
		et := in.Type().Underlying().(*types.Pointer).Elem()
		lbl := "new"
		if !in.Heap {
			lbl = "local"
		}
		obj := ex.newObject(et, ex.zero(et), lbl+" "+in.Comment)
		fr.env[in] = &Ptr{Obj: obj}
	case *ssa.MakeSlice:
		n := ex.concreteInt(fr, ex.get(fr, in.Len), "make len")
		c := ex.concreteInt(fr, ex.get(fr, in.Cap), "make cap")
		if n < 0 || c < n {
			ex.goPanicRuntime("makeslice: len out of range")
		}
		et := in.Type().Underlying().(*types.Slice).Elem()
		fr.env[in] = ex.makeSlice(et, n, c)
	case *ssa.MakeMap:
		mt := in.Type().Underlying().(*types.Map)
		ex.nextObj++
		fr.env[in] = &Map{M: &MapObj{ID: ex.nextObj, KT: mt.Key(), VT: mt.Elem()}}
	case *ssa.MakeChan:
		n := ex.concreteInt(fr, ex.get(fr, in.Size), "chan size")
		ex.nextObj++
		fr.env[in] = &Chan{C: &ChanObj{ID: ex.nextObj, Cap: n, ET: in.Type().Underlying().(*types.Chan).Elem(), Label: ex.where(fr)}}
	case *ssa.MakeClosure:
		env := make([]Value, len(in.Bindings))
		for i, b := range in.Bindings {
			env[i] = ex.get(fr, b)
		}
		fr.env[in] = &Func{Fn: in.Fn.(*ssa.Function), Env: env}
	case *ssa.FieldAddr:
		p := ex.get(fr, in.X).(*Ptr)
		if p.Obj == nil {
			ex.goPanicRuntime("nil pointer dereference")
		}
		fr.env[in] = &Ptr{Obj: p.Obj, Path: appendPath(p.Path, in.Field)}
	case *ssa.Field:
		fr.env[in] = ex.get(fr, in.X).(*StructV).F[in.Field]
	case *ssa.IndexAddr:
		fr.env[in] = ex.indexAddr(fr, in)
	case *ssa.Index:
		fr.env[in] = ex.indexOp(fr, in)
	case *ssa.Lookup:
		fr.env[in] = ex.lookup(fr, in)
	case *ssa.MapUpdate:
		m := ex.get(fr, in.Map).(*Map)
		if m.M == nil {
			ex.goPanicRuntime("assignment to entry in nil map")
		}
		ex.mapUpdate(m.M, ex.get(fr, in.Key), ex.get(fr, in.Value))
	case *ssa.TypeAssert:
		fr.env[in] = ex.typeAssert(fr, in)
	case *ssa.Phi:
		fr.env[in] = ex.phi(fr, in)
	case *ssa.Range:
		fr.env[in] = ex.rangeInit(fr, in)
	case *ssa.Next:
		fr.env[in] = ex.rangeNext(fr, in)
	case *ssa.Defer:
		f, args := ex.prepareCall(fr, &in.Call)
		fr.defers = append(fr.defers, deferred{fn: f, args: args, site: in})
	case *ssa.RunDefers:
		ex.runDefers(fr)
	case *ssa.Go:
		f, args := ex.prepareCall(fr, &in.Call)
		ex.spawn(f, args, ex.where(fr))
		ex.yieldPoint("go")
	case *ssa.Send:
		ex.chanSend(fr, ex.get(fr, in.Chan).(*Chan), ex.get(fr, in.X))
	case *ssa.Select:
		fr.env[in] = ex.selectOp(fr, in)
	default:
		ex.unsupported(fr, fmt.Sprintf("instruction %T", instr))
	}
}

func appendPath(p []int, i int) []int {
	n := make([]int, len(p)+1)
	copy(n, p)
	n[len(p)] = i
	return n
}

func (ex *Exec) phi(fr *frame, in *ssa.Phi) Value {
	b := in.Block()
	if fr.cmerge != nil {
		var res Value
		for i := len(fr.cmerge) - 1; i >= 0; i-- {
			e := fr.cmerge[i]
			v := ex.get(fr, in.Edges[predIndex(b, e.pred)])
			if res == nil || v == res {
				res = v
				continue
			}
			res = ex.B.Ite(e.cond, v.(*Term), res.(*Term))
		}
		return res
	}
	for i, p := range b.Preds {
		if p == fr.prev {
			return ex.get(fr, in.Edges[i])
		}
	}
	panic("phi: no matching predecessor")
}

// concreteInt forces an integer term to a concrete value (forking).
func (ex *Exec) concreteInt(fr *frame, v Value, what string) int {
	t := v.(*Term)
	if t.Op == OConst {
		return int(sx(t.Val, t.W))
	}
	return int(ex.X.Concretize(t, what))
}

func (ex *Exec) makeSlice(et types.Type, n, c int) *Slice {
	arr := &ArrayV{E: make([]Value, c)}
	if c > 0 {
		z := ex.zero(et)
		for i := range arr.E {
			arr.E[i] = z
		}
	}
	obj := ex.newObject(types.NewArray(et, int64(c)), arr, "makeslice")
	return &Slice{Arr: obj, Off: 0, Len: n, Cap: c}
}

func (ex *Exec) unop(fr *frame, in *ssa.UnOp) Value {
	x := ex.get(fr, in.X)
	switch in.Op {
	case token.MUL: // load
		p := x.(*Ptr)
		if ex.watchObj != nil && ex.watchOn && ex.watchReads && p.Obj != nil && len(p.Path) > 0 {
			if g := ex.watchObj[p.Obj]; g != nil && p.Obj.T != nil && ex.P.mutableField(p.Obj.T, p.Path[0]) {
				ex.guard(g, false, p.Obj.Label+" (read of a field that is written somewhere)")
			}
		}
		return ex.load(p)
	case token.NOT:
		return ex.B.Not(x.(*Term))
	case token.SUB:
		return ex.B.Un(ONeg, x.(*Term))
	case token.XOR:
		return ex.B.Un(OBNot, x.(*Term))
	case token.ARROW:
		v, ok := ex.chanRecv(fr, x.(*Chan))
		if in.CommaOk {
			return Tuple{v, ex.B.Bool(ok)}
		}
		return v
	}
	ex.unsupported(fr, "unop "+in.Op.String())
	return nil
}

// strEq returns the Bool term for a == b.
func (ex *Exec) strEq(a, b *Str) *Term {
	if len(a.B) != len(b.B) {
		return ex.B.False
	}
	cs := make([]*Term, 0, len(a.B))
	for i := range a.B {
		c := ex.B.Eq(a.B[i], b.B[i])
		if c == ex.B.False {
			return ex.B.False
		}
		cs = append(cs, c)
	}
	return ex.B.And(cs...)
}

// strLess returns the Bool term for a < b (bytewise).
func (ex *Exec) strLess(a, b *Str) *Term {
	// lexicographic: exists i: prefix equal and a[i] < b[i], or a is proper prefix
	n := len(a.B)
	if len(b.B) < n {
		n = len(b.B)
	}
	res := ex.B.Bool(len(a.B) < len(b.B))
	for i := n - 1; i >= 0; i-- {
		lt := ex.B.Bin(OUlt, a.B[i], b.B[i])
		eq := ex.B.Eq(a.B[i], b.B[i])
		res = ex.B.Or(lt, ex.B.And(eq, res))
	}
	return res
}

// valueEq computes == on two values of static type t.
func (ex *Exec) valueEq(fr *frame, t types.Type, x, y Value) *Term {
	switch a := x.(type) {
	case *Term:
		return ex.B.Eq(a, y.(*Term))
	case *Str:
		return ex.strEq(a, y.(*Str))
	case *Ptr:
		return ex.B.Bool(ptrEq(a, y.(*Ptr)))
	case *Map:
		return ex.B.Bool(a.M == y.(*Map).M)
	case *Chan:
		return ex.B.Bool(a.C == y.(*Chan).C)
	case *Slice:
		// only comparison with nil is legal
		b := y.(*Slice)
		if b.Nil {
			return ex.B.Bool(a.Nil)
		}
		return ex.B.Bool(b.Nil == a.Nil && a.Nil)
	case *Func:
		b := y.(*Func)
		return ex.B.Bool((a.Fn == nil && a.Builtin == nil && a.Model == nil) == (b.Fn == nil && b.Builtin == nil && b.Model == nil))
	case *Iface:
		b := y.(*Iface)
		if a.T == nil || b.T == nil {
			return ex.B.Bool(a.T == nil && b.T == nil)
		}
		if !types.Identical(a.T, b.T) {
			return ex.B.False
		}
		return ex.valueEq(fr, a.T, a.V, b.V)
	case *StructV:
		b := y.(*StructV)
		st := t.Underlying().(*types.Struct)
		cs := []*Term{}
		for i := range a.F {
			cs = append(cs, ex.valueEq(fr, st.Field(i).Type(), a.F[i], b.F[i]))
		}
		return ex.B.And(cs...)
	case *ArrayV:
		b := y.(*ArrayV)
		cs := []*Term{}
		et := t.Underlying().(*types.Array).Elem()
		for i := range a.E {
			cs = append(cs, ex.valueEq(fr, et, a.E[i], b.E[i]))
		}
		return ex.B.And(cs...)
	}
	ex.unsupported(fr, fmt.Sprintf("== on %T", x))
	return nil
}

func (ex *Exec) binop(fr *frame, op token.Token, t types.Type, x, y Value) Value {
	switch op {
	case token.EQL:
		return ex.valueEq(fr, t, x, y)
	case token.NEQ:
		return ex.B.Not(ex.valueEq(fr, t, x, y))
	}
	if a, ok := x.(*Str); ok {
		b := y.(*Str)
		switch op {
		case token.ADD:
			r := &Str{B: make([]*Term, 0, len(a.B)+len(b.B))}
			r.B = append(append(r.B, a.B...), b.B...)
			return r
		case token.LSS:
			return ex.strLess(a, b)
		case token.GTR:
			return ex.strLess(b, a)
		case token.LEQ:
			return ex.B.Not(ex.strLess(b, a))
		case token.GEQ:
			return ex.B.Not(ex.strLess(a, b))
		}
	}
	a, ok1 := x.(*Term)
	b, ok2 := y.(*Term)
	if !ok1 || !ok2 {
		ex.unsupported(fr, fmt.Sprintf("binop %s on %T,%T", op, x, y))
	}
	signed := isSigned(t)
	B := ex.B
	switch op {
	case token.ADD:
		return B.Bin(OAdd, a, b)
	case token.SUB:
		return B.Bin(OSub, a, b)
	case token.MUL:
		return B.Bin(OMul, a, b)
	case token.QUO, token.REM:
		// division by zero panics
		nz := B.Not(B.Eq(b, B.Const(b.W, 0)))
		if !ex.X.Branch(nz) {
			ex.goPanicRuntime("integer divide by zero")
		}
		if op == token.QUO {
			if signed {
				return B.Bin(OSDiv, a, b)
			}
			return B.Bin(OUDiv, a, b)
		}
		if signed {
			return B.Bin(OSRem, a, b)
		}
		return B.Bin(OURem, a, b)
	case token.AND:
		if a.W == 0 {
			return B.And(a, b)
		}
		return B.Bin(OBAnd, a, b)
	case token.OR:
		if a.W == 0 {
			return B.Or(a, b)
		}
		return B.Bin(OBOr, a, b)
	case token.XOR:
		return B.Bin(OBXor, a, b)
	case token.AND_NOT:
		return B.Bin(OAndNot, a, b)
	case token.SHL, token.SHR:
		// shift count may have a different width; Go: negative count panics
		bb := b
		if bb.W != a.W {
			if bb.W > a.W {
				// large counts: saturate
				big := B.Bin(OUle, B.Const(bb.W, uint64(a.W)), bb)
				bb = B.Ite(big, B.Const(a.W, uint64(a.W)), B.Zext(B.mk(OExtr, a.W, 0, bb), a.W))
			} else {
				bb = B.Zext(bb, a.W)
			}
		}
		if op == token.SHL {
			return B.Bin(OShl, a, bb)
		}
		if signed {
			return B.Bin(OAShr, a, bb)
		}
		return B.Bin(OLShr, a, bb)
	case token.LSS:
		if signed {
			return B.Bin(OSlt, a, b)
		}
		return B.Bin(OUlt, a, b)
	case token.LEQ:
		if signed {
			return B.Bin(OSle, a, b)
		}
		return B.Bin(OUle, a, b)
	case token.GTR:
		if signed {
			return B.Bin(OSlt, b, a)
		}
		return B.Bin(OUlt, b, a)
	case token.GEQ:
		if signed {
			return B.Bin(OSle, b, a)
		}
		return B.Bin(OUle, b, a)
	}
	ex.unsupported(fr, "binop "+op.String())
	return nil
}

func (ex *Exec) convert(fr *frame, from, to types.Type, x Value) Value {
	fu, tu := from.Underlying(), to.Underlying()
	if t, ok := x.(*Term); ok {
		if tb, ok := tu.(*types.Basic); ok {
			if tb.Info()&types.IsString != 0 {
				// string(rune/byte): ASCII only
				if t.Op == OConst {
					return ex.mkStr(string(rune(sx(t.Val, t.W))))
				}
				v := ex.B.Zext(t, 64)
				if t.W == 64 {
					v = t
				}
				ok := ex.B.Bin(OUlt, v, ex.B.Const(64, 0x80))
				if !ex.X.Branch(ok) {
					ex.abort("unsupported", "string(non-ASCII rune) at "+ex.where(fr))
				}
				return &Str{B: []*Term{ex.B.Zext(t, 8)}}
			}
			w := widthOf(tb)
			if w == 255 {
				return &Opaque{T: to, Note: "convert to " + tb.String()}
			}
			if w == t.W {
				return t
			}
			if w < t.W {
				return ex.B.Zext(t, w) // truncation
			}
			if isSigned(from) {
				return ex.B.Sext(t, w)
			}
			return ex.B.Zext(t, w)
		}
	}
	if s, ok := x.(*Str); ok {
		if ts, ok := tu.(*types.Slice); ok {
			if eb, ok := ts.Elem().Underlying().(*types.Basic); ok && eb.Kind() == types.Uint8 {
				arr := &ArrayV{E: make([]Value, len(s.B))}
				for i, b := range s.B {
					arr.E[i] = b
				}
				obj := ex.newObject(types.NewArray(ts.Elem(), int64(len(s.B))), arr, "[]byte(string)")
				return &Slice{Arr: obj, Len: len(s.B), Cap: len(s.B)}
			}
			ex.unsupported(fr, "[]rune(string)")
		}
		if isString(to) {
			return s
		}
	}
	if sl, ok := x.(*Slice); ok {
		if isString(to) {
			if fs, ok := fu.(*types.Slice); ok {
				if eb, ok := fs.Elem().Underlying().(*types.Basic); ok && eb.Kind() == types.Uint8 {
					r := &Str{B: make([]*Term, sl.Len)}
					if sl.Len > 0 {
						arr := sl.Arr.V.(*ArrayV)
						for i := 0; i < sl.Len; i++ {
							r.B[i] = arr.E[sl.Off+i].(*Term)
						}
					}
					return r
				}
			}
		}
	}
	if _, ok := x.(*Ptr); ok {
		return x // unsafe.Pointer <-> *T
	}
	if o, ok := x.(*Opaque); ok {
		return &Opaque{T: to, Note: o.Note}
	}
	ex.unsupported(fr, fmt.Sprintf("convert %s -> %s (%T)", from, to, x))
	return nil
}

// checkIndex forks on 0 <= i < n and raises the runtime panic otherwise.
func (ex *Exec) checkIndex(i *Term, n int, kind string) {
	if i.Op == OConst {
		v := sx(i.Val, i.W)
		if v < 0 || v >= int64(n) {
			ex.goPanicRuntime(fmt.Sprintf("index out of range [%d] with length %d", v, n))
		}
		return
	}
	iw := i
	if iw.W != 64 {
		iw = ex.B.Zext(i, 64)
	}
	inb := ex.B.Bin(OUlt, iw, ex.B.Const(64, uint64(n)))
	if !ex.X.Branch(inb) {
		ex.goPanicRuntime(fmt.Sprintf("index out of range [sym] with length %d", n))
	}
}

// selectIndex returns elems[i] for a symbolic in-range index as an ite chain (scalars only).
func (ex *Exec) selectIndex(fr *frame, i *Term, elems []Value) Value {
	if i.Op == OConst {
		return elems[int(sx(i.Val, i.W))]
	}
	allTerms := true
	for _, e := range elems {
		if _, ok := e.(*Term); !ok {
			allTerms = false
			break
		}
	}
	if !allTerms || len(elems) == 0 {
		k := int(ex.X.Concretize(i, "index"))
		return elems[k]
	}
	iw := i
	res := elems[len(elems)-1].(*Term)
	for k := len(elems) - 2; k >= 0; k-- {
		res = ex.B.Ite(ex.B.Eq(iw, ex.B.Const(iw.W, uint64(k))), elems[k].(*Term), res)
	}
	return res
}

func (ex *Exec) indexOp(fr *frame, in *ssa.Index) Value {
	x := ex.get(fr, in.X)
	i := ex.get(fr, in.Index).(*Term)
	switch a := x.(type) {
	case *Str:
		ex.checkIndex(i, len(a.B), "string")
		vals := make([]Value, len(a.B))
		for k, b := range a.B {
			vals[k] = b
		}
		return ex.selectIndex(fr, i, vals)
	case *ArrayV:
		ex.checkIndex(i, len(a.E), "array")
		return ex.selectIndex(fr, i, a.E)
	}
	ex.unsupported(fr, fmt.Sprintf("Index on %T", x))
	return nil
}

func (ex *Exec) indexAddr(fr *frame, in *ssa.IndexAddr) Value {
	x := ex.get(fr, in.X)
	i := ex.get(fr, in.Index).(*Term)
	switch a := x.(type) {
	case *Slice:
		ex.checkIndex(i, a.Len, "slice")
		k := ex.concreteInt(fr, i, "slice index")
		return &Ptr{Obj: a.Arr, Path: []int{a.Off + k}}
	case *Ptr: // pointer to array
		if a.Obj == nil {
			ex.goPanicRuntime("nil pointer dereference")
		}
		n := int(in.X.Type().Underlying().(*types.Pointer).Elem().Underlying().(*types.Array).Len())
		ex.checkIndex(i, n, "array")
		k := ex.concreteInt(fr, i, "array index")
		return &Ptr{Obj: a.Obj, Path: appendPath(a.Path, k)}
	}
	ex.unsupported(fr, fmt.Sprintf("IndexAddr on %T", x))
	return nil
}

func (ex *Exec) sliceOp(fr *frame, in *ssa.Slice) Value {
	x := ex.get(fr, in.X)
	var lo, hi, max *Term
	if in.Low != nil {
		lo = ex.get(fr, in.Low).(*Term)
	}
	if in.High != nil {
		hi = ex.get(fr, in.High).(*Term)
	}
	if in.Max != nil {
		max = ex.get(fr, in.Max).(*Term)
	}
	var length, capacity int
	switch a := x.(type) {
	case *Str:
		length, capacity = len(a.B), len(a.B)
	case *Slice:
		length, capacity = a.Len, a.Cap
	case *Ptr:
		if a.Obj == nil {
			ex.goPanicRuntime("nil pointer dereference")
		}
		n := int(in.X.Type().Underlying().(*types.Pointer).Elem().Underlying().(*types.Array).Len())
		length, capacity = n, n
	default:
		ex.unsupported(fr, fmt.Sprintf("Slice on %T", x))
	}
	_ = length
	// Go checks: 0 <= lo <= hi <= max <= cap (for strings: hi <= len)
	l, h, m := 0, length, capacity
	isStr := false
	if _, ok := x.(*Str); ok {
		isStr = true
	}
	limit := capacity
	if isStr {
		limit = length
	}
	if max != nil {
		m = ex.boundedInt(fr, max, 0, capacity, "slice bounds out of range [::%d] with capacity %d", capacity)
		limit = m
	}
	if hi != nil {
		h = ex.boundedInt(fr, hi, 0, limit, "slice bounds out of range [:%d] with capacity %d", limit)
	} else if !isStr {
		h = length
	}
	if lo != nil {
		l = ex.boundedInt(fr, lo, 0, h, "slice bounds out of range [%d:%d]", h)
	}
	switch a := x.(type) {
	case *Str:
		return &Str{B: a.B[l:h]}
	case *Slice:
		if a.Nil && l == 0 && h == 0 {
			return &Slice{Nil: true}
		}
		return &Slice{Arr: a.Arr, Off: a.Off + l, Len: h - l, Cap: m - l}
	case *Ptr:
		// slicing *array: need an object whose V is the array itself
		if len(a.Path) != 0 {
			ex.unsupported(fr, "slice of nested array")
		}
		return &Slice{Arr: a.Obj, Off: l, Len: h - l, Cap: m - l}
	}
	return nil
}

// boundedInt concretises t, raising a slice-bounds panic if outside [lo,hi].
func (ex *Exec) boundedInt(fr *frame, t *Term, lo, hi int, msg string, extra int) int {
	if t.Op == OConst {
		v := sx(t.Val, t.W)
		if v < int64(lo) || v > int64(hi) {
			ex.goPanicRuntime(fmt.Sprintf(msg, v, extra))
		}
		return int(v)
	}
	tw := t
	if tw.W != 64 {
		tw = ex.B.Sext(t, 64)
	}
	inb := ex.B.And(ex.B.Bin(OSle, ex.B.Const(64, uint64(lo)), tw), ex.B.Bin(OSle, tw, ex.B.Const(64, uint64(hi))))
	if !ex.X.Branch(inb) {
		ex.goPanicRuntime("slice bounds out of range (symbolic)")
	}
	return int(ex.X.Concretize(tw, "slice bound"))
}

func (ex *Exec) typeAssert(fr *frame, in *ssa.TypeAssert) Value {
	x := ex.get(fr, in.X).(*Iface)
	ok := false
	if x.T != nil {
		if it, isIface := in.AssertedType.Underlying().(*types.Interface); isIface {
			ok = types.Implements(x.T, it)
		} else {
			ok = types.Identical(x.T, in.AssertedType)
		}
	}
	var v Value
	if ok {
		if types.IsInterface(in.AssertedType) {
			v = x
		} else {
			v = x.V
		}
	} else {
		v = ex.zero(in.AssertedType)
	}
	if in.CommaOk {
		return Tuple{v, ex.B.Bool(ok)}
	}
	if !ok {
		panic(&goPanic{Val: &Iface{T: ex.P.runtimeErrorType(), V: ex.mkStr("interface conversion")}, Kind: "runtime:type assertion", Where: ex.where(fr), Msg: "interface conversion"})
	}
	return v
}

// ---- maps -----------------------------------------------------------------

// keyEq returns the term "k1 == k2" for map keys.
func (ex *Exec) keyEq(a, b Value) *Term {
	switch x := a.(type) {
	case *Term:
		return ex.B.Eq(x, b.(*Term))
	case *Str:
		return ex.strEq(x, b.(*Str))
	case *Ptr:
		return ex.B.Bool(ptrEq(x, b.(*Ptr)))
	case *Iface:
		y := b.(*Iface)
		if x.T == nil || y.T == nil {
			return ex.B.Bool(x.T == nil && y.T == nil)
		}
		if !types.Identical(x.T, y.T) {
			return ex.B.False
		}
		return ex.keyEq(x.V, y.V)
	case *StructV:
		y := b.(*StructV)
		cs := []*Term{}
		for i := range x.F {
			cs = append(cs, ex.keyEq(x.F[i], y.F[i]))
		}
		return ex.B.And(cs...)
	case *Chan:
		return ex.B.Bool(x.C == b.(*Chan).C)
	case *ArrayV:
		y := b.(*ArrayV)
		cs := []*Term{}
		for i := range x.E {
			cs = append(cs, ex.keyEq(x.E[i], y.E[i]))
		}
		return ex.B.And(cs...)
	}
	ex.abort("unsupported", fmt.Sprintf("map key of kind %T", a))
	return nil
}

// mapFind forks over which entry (if any) equals the key.
func (ex *Exec) mapFind(m *MapObj, k Value) int {
	if ex.watchMap != nil {
		ex.guard(ex.watchMap[m], false, "map")
	}
	for i, e := range m.Entries {
		c := ex.keyEq(e.K, k)
		if c == ex.B.False {
			continue
		}
		if ex.X.Branch(c) {
			return i
		}
	}
	return -1
}

func (ex *Exec) lookup(fr *frame, in *ssa.Lookup) Value {
	x := ex.get(fr, in.X)
	if s, ok := x.(*Str); ok {
		i := ex.get(fr, in.Index).(*Term)
		ex.checkIndex(i, len(s.B), "string")
		vals := make([]Value, len(s.B))
		for k, b := range s.B {
			vals[k] = b
		}
		return ex.selectIndex(fr, i, vals)
	}
	m := x.(*Map)
	vt := in.X.Type().Underlying().(*types.Map).Elem()
	idx := -1
	if m.M != nil {
		idx = ex.mapFind(m.M, ex.get(fr, in.Index))
	}
	var v Value
	if idx >= 0 {
		v = m.M.Entries[idx].V
	} else {
		v = ex.zero(vt)
	}
	if in.CommaOk {
		return Tuple{v, ex.B.Bool(idx >= 0)}
	}
	return v
}

func (ex *Exec) mapUpdate(m *MapObj, k, v Value) {
	if ex.watchMap != nil {
		ex.guard(ex.watchMap[m], true, "map")
	}
	idx := ex.mapFind(m, k)
	if idx >= 0 {
		ne := append([]MapEntry(nil), m.Entries...)
		ne[idx].V = v
		m.Entries = ne
		return
	}
	m.Entries = append(m.Entries[:len(m.Entries):len(m.Entries)], MapEntry{k, v})
	m.Gen++
}

func (ex *Exec) mapDelete(m *MapObj, k Value) {
	if ex.watchMap != nil {
		ex.guard(ex.watchMap[m], true, "map")
	}
	idx := ex.mapFind(m, k)
	if idx < 0 {
		return
	}
	ne := make([]MapEntry, 0, len(m.Entries)-1)
	ne = append(ne, m.Entries[:idx]...)
	ne = append(ne, m.Entries[idx+1:]...)
	m.Entries = ne
	m.Gen++
}

func (ex *Exec) rangeInit(fr *frame, in *ssa.Range) Value {
	x := ex.get(fr, in.X)
	switch a := x.(type) {
	case *Str:
		return &mapIter{str: a}
	case *Map:
		it := &mapIter{}
		if a.M != nil {
			if ex.watchMap != nil {
				ex.guard(ex.watchMap[a.M], false, "map")
			}
			it.m = a.M
			for _, e := range a.M.Entries {
				it.keys = append(it.keys, e.K)
			}
			if ex.X.PermuteIn[fr.fn.Name()] {
				it.keys = ex.X.permute(it.keys)
			}
		}
		return it
	}
	ex.unsupported(fr, fmt.Sprintf("range over %T", x))
	return nil
}

func (ex *Exec) rangeNext(fr *frame, in *ssa.Next) Value {
	it := ex.get(fr, in.Iter).(*mapIter)
	if in.IsString {
		if it.i >= len(it.str.B) {
			return Tuple{ex.B.False, ex.i64(0), ex.B.Const(32, 0)}
		}
		b := it.str.B[it.i]
		k := it.i
		if b.Op == OConst && b.Val >= 0x80 {
			// concrete multi-byte / invalid sequence: decode as Go does (needs concrete continuation bytes)
			var raw []byte
			for j := it.i; j < len(it.str.B) && j < it.i+4; j++ {
				if it.str.B[j].Op != OConst {
					break
				}
				raw = append(raw, byte(it.str.B[j].Val))
			}
			r, size := utf8.DecodeRune(raw)
			if len(raw) < 4 && it.i+len(raw) < len(it.str.B) && !utf8.FullRune(raw) {
				ex.abort("unsupported", "range over a string with symbolic UTF-8 continuation bytes at "+ex.where(fr))
			}
			it.i += size
			return Tuple{ex.B.True, ex.i64(int64(k)), ex.B.Const(32, uint64(r))}
		}
		if ex.X.Branch(ex.B.Bin(OUlt, b, ex.B.Const(8, 0x80))) {
			it.i++
			return Tuple{ex.B.True, ex.i64(int64(k)), ex.B.Zext(b, 32)}
		}
		// a symbolic byte >= 0x80: decidable only when it is the last byte (a lone one is invalid UTF-8)
		if it.i == len(it.str.B)-1 {
			it.i++
			return Tuple{ex.B.True, ex.i64(int64(k)), ex.B.Const(32, 0xFFFD)}
		}
		ex.abort("unsupported", "range over non-ASCII symbolic string at "+ex.where(fr))
	}
	tt := in.Type().(*types.Tuple)
	for it.m != nil && it.i < len(it.keys) {
		k := it.keys[it.i]
		it.i++
		// the entry must still be present (by identity of the key value)
		for _, e := range it.m.Entries {
			if e.K == k {
				return Tuple{ex.B.True, k, e.V}
			}
		}
	}
	return Tuple{ex.B.False, ex.zero(tt.At(1).Type()), ex.zero(tt.At(2).Type())}
}
