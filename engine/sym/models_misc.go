package sym

import (
	"encoding/base64"
	"fmt"
	"go/types"
	"strconv"
	"strings"
)

type mutexGhost struct {
	writer  bool
	readers int
	// statistics for lock-discipline checks
	acquires int
	ownerG   int
}

type wgGhost struct{ n int }

func ptrKey(p *Ptr) string { return fmt.Sprintf("%d%v", p.Obj.ID, p.Path) }

func (ex *Exec) mutexGhost(p *Ptr) *mutexGhost {
	if p.Obj == nil {
		ex.goPanicRuntime("nil pointer dereference")
	}
	k := "mu:" + ptrKey(p)
	if g, ok := ex.ghost[k]; ok {
		return g.(*mutexGhost)
	}
	g := &mutexGhost{}
	ex.ghost[k] = g
	return g
}

func (ex *Exec) wgGhost(p *Ptr) *wgGhost {
	if p.Obj == nil {
		ex.goPanicRuntime("nil pointer dereference")
	}
	k := "wg:" + ptrKey(p)
	if g, ok := ex.ghost[k]; ok {
		return g.(*wgGhost)
	}
	g := &wgGhost{}
	ex.ghost[k] = g
	return g
}

func init() {
	m := models
	lock := func(ex *Exec, fr *frame, a []Value) Value {
		g := ex.mutexGhost(a[0].(*Ptr))
		ex.yieldPoint("lock")
		ex.block(func() bool { return !g.writer && g.readers == 0 }, "Lock of a held mutex")
		g.writer = true
		g.acquires++

		return nil
	}
	unlock := func(ex *Exec, fr *frame, a []Value) Value {
		g := ex.mutexGhost(a[0].(*Ptr))
		if !g.writer {
			panic(&goPanic{Val: &Iface{T: types.Typ[types.String], V: ex.mkStr("sync: unlock of unlocked mutex")}, Kind: "fatal:unlock of unlocked mutex", Where: ex.where(fr)})
		}
		g.writer = false

		return nil
	}
	m["(*sync.Mutex).Lock"] = lock
	m["(*sync.Mutex).Unlock"] = unlock
	m["(*sync.RWMutex).Lock"] = lock
	m["(*sync.RWMutex).Unlock"] = unlock
	m["(*sync.Mutex).TryLock"] = func(ex *Exec, fr *frame, a []Value) Value {
		g := ex.mutexGhost(a[0].(*Ptr))
		if g.writer || g.readers > 0 {
			return ex.B.False
		}
		g.writer = true
		return ex.B.True
	}
	m["(*sync.RWMutex).RLock"] = func(ex *Exec, fr *frame, a []Value) Value {
		g := ex.mutexGhost(a[0].(*Ptr))
		ex.yieldPoint("lock")
		ex.block(func() bool { return !g.writer }, "RLock of a write-held mutex")
		g.readers++
		g.acquires++

		return nil
	}
	m["(*sync.RWMutex).RUnlock"] = func(ex *Exec, fr *frame, a []Value) Value {
		g := ex.mutexGhost(a[0].(*Ptr))
		if g.readers == 0 {
			panic(&goPanic{Val: &Iface{T: types.Typ[types.String], V: ex.mkStr("sync: RUnlock of unlocked RWMutex")}, Kind: "fatal:RUnlock of unlocked RWMutex", Where: ex.where(fr)})
		}
		g.readers--

		return nil
	}
	m["(*sync.WaitGroup).Add"] = func(ex *Exec, fr *frame, a []Value) Value {
		g := ex.wgGhost(a[0].(*Ptr))
		g.n += ex.concreteInt(fr, a[1], "WaitGroup.Add")
		if g.n < 0 {
			panic(&goPanic{Val: &Iface{T: types.Typ[types.String], V: ex.mkStr("sync: negative WaitGroup counter")}, Kind: "explicit:negative WaitGroup counter", Where: ex.where(fr)})
		}
		return nil
	}
	m["(*sync.WaitGroup).Done"] = func(ex *Exec, fr *frame, a []Value) Value {
		g := ex.wgGhost(a[0].(*Ptr))
		g.n--
		if g.n < 0 {
			panic(&goPanic{Val: &Iface{T: types.Typ[types.String], V: ex.mkStr("sync: negative WaitGroup counter")}, Kind: "explicit:negative WaitGroup counter", Where: ex.where(fr)})
		}
		return nil
	}
	m["(*sync.WaitGroup).Wait"] = func(ex *Exec, fr *frame, a []Value) Value {
		g := ex.wgGhost(a[0].(*Ptr))
		ex.yieldPoint("wg")
		ex.block(func() bool { return g.n <= 0 }, "WaitGroup.Wait")
		return nil
	}

	// --- time -------------------------------------------------------------
	m["time.Now"] = func(ex *Exec, fr *frame, a []Value) Value { return ex.timeNow() }
	m["(time.Time).Sub"] = func(ex *Exec, fr *frame, a []Value) Value {
		t, u := a[0].(*StructV), a[1].(*StructV)
		return ex.B.Bin(OSub, t.F[1].(*Term), u.F[1].(*Term))
	}
	m["time.Since"] = func(ex *Exec, fr *frame, a []Value) Value {
		now := ex.timeNow()
		return ex.B.Bin(OSub, now.F[1].(*Term), a[0].(*StructV).F[1].(*Term))
	}
	m["(time.Time).UnixNano"] = func(ex *Exec, fr *frame, a []Value) Value { return a[0].(*StructV).F[1] }
	m["(time.Time).Unix"] = func(ex *Exec, fr *frame, a []Value) Value {
		return ex.B.Bin(OSDiv, a[0].(*StructV).F[1].(*Term), ex.B.Const(64, 1000000000))
	}
	m["(time.Time).IsZero"] = func(ex *Exec, fr *frame, a []Value) Value {
		return ex.B.Eq(a[0].(*StructV).F[1].(*Term), ex.B.Const(64, 0))
	}
	m["(time.Time).Add"] = func(ex *Exec, fr *frame, a []Value) Value {
		t := a[0].(*StructV)
		return &StructV{F: []Value{t.F[0], ex.B.Bin(OAdd, t.F[1].(*Term), a[1].(*Term)), t.F[2]}}
	}
	m["(time.Time).After"] = func(ex *Exec, fr *frame, a []Value) Value {
		return ex.B.Bin(OSlt, a[1].(*StructV).F[1].(*Term), a[0].(*StructV).F[1].(*Term))
	}
	m["(time.Time).Before"] = func(ex *Exec, fr *frame, a []Value) Value {
		return ex.B.Bin(OSlt, a[0].(*StructV).F[1].(*Term), a[1].(*StructV).F[1].(*Term))
	}
	m["(time.Duration).Seconds"] = func(ex *Exec, fr *frame, a []Value) Value {
		return &Opaque{T: types.Typ[types.Float64], Note: "Duration.Seconds"}
	}
	m["time.After"] = func(ex *Exec, fr *frame, a []Value) Value {
		d := a[0].(*Term)
		ex.logEvent("sleep", d)
		// the clock advances by at least d (and at least 0)
		adv := ex.B.Var(fmt.Sprintf("sleepextra#%d", ex.freshN("sleep")), 64)
		ex.X.AssumeNoCheck(ex.B.Bin(OSle, ex.B.Const(64, 0), adv))
		ex.X.AssumeNoCheck(ex.B.Bin(OSle, adv, ex.B.Const(64, 1<<40)))
		dd := ex.B.Ite(ex.B.Bin(OSlt, d, ex.B.Const(64, 0)), ex.B.Const(64, 0), d)
		ex.clockFloor = ex.B.Bin(OAdd, ex.clock(), ex.B.Bin(OAdd, dd, adv))
		ex.nextObj++
		tt := ex.P.Pkgs["time"].Type("Time").Type()
		c := &ChanObj{ID: ex.nextObj, Cap: 1, ET: tt, Label: "time.After"}
		c.Buf = []Value{ex.timeNow()}
		return &Chan{C: c}
	}
	m["time.Sleep"] = func(ex *Exec, fr *frame, a []Value) Value {
		d := a[0].(*Term)
		ex.logEvent("sleep", d)
		dd := ex.B.Ite(ex.B.Bin(OSlt, d, ex.B.Const(64, 0)), ex.B.Const(64, 0), d)
		ex.clockFloor = ex.B.Bin(OAdd, ex.clock(), dd)
		return nil
	}

	// --- runtime ----------------------------------------------------------
	m["runtime.Caller"] = func(ex *Exec, fr *frame, a []Value) Value {
		return Tuple{ex.B.Const(64, 1), ex.mkStr("file.go"), ex.i64(1), ex.B.True}
	}
	m["runtime.FuncForPC"] = func(ex *Exec, fr *frame, a []Value) Value {
		ft := ex.P.Pkgs["runtime"].Type("Func").Type()
		return &Ptr{Obj: ex.newObject(ft, &Opaque{T: ft}, "runtime.Func")}
	}
	m["(runtime.errorString).Error"] = func(ex *Exec, fr *frame, a []Value) Value { return a[0] }
	m["(*runtime.Func).Name"] = func(ex *Exec, fr *frame, a []Value) Value { return ex.mkStr("func") }

	// --- strconv / sort / reflect ------------------------------------------
	m["strconv.Atoi"] = func(ex *Exec, fr *frame, a []Value) Value {
		s := a[0].(*Str)
		B := ex.B
		errv := func() Value { return Tuple{ex.i64(0), ex.mkError("strconv.Atoi: parsing: invalid syntax")} }
		bs := s.B
		neg := B.False
		if len(bs) == 0 {
			return errv()
		}
		if len(bs) > 18 {
			ex.unsupported(fr, "Atoi of more than 18 bytes")
		}
		isDigit := func(b *Term) *Term {
			return B.And(B.Bin(OUle, B.Const(8, '0'), b), B.Bin(OUle, b, B.Const(8, '9')))
		}
		if ex.X.Branch(B.Eq(bs[0], B.Const(8, '-'))) {
			neg = B.True
			bs = bs[1:]
		} else if ex.X.Branch(B.Eq(bs[0], B.Const(8, '+'))) {
			bs = bs[1:]
		}
		if len(bs) == 0 {
			return errv()
		}
		v := B.Const(64, 0)
		for _, b := range bs {
			if !ex.X.Branch(isDigit(b)) {
				return errv()
			}
			d := B.Zext(B.Bin(OSub, b, B.Const(8, '0')), 64)
			v = B.Bin(OAdd, B.Bin(OMul, v, B.Const(64, 10)), d)
		}
		v = B.Ite(neg, B.Un(ONeg, v), v)
		return Tuple{v, &Iface{}}
	}
	m["strconv.Itoa"] = func(ex *Exec, fr *frame, a []Value) Value {
		n := ex.concreteInt(fr, a[0], "Itoa")
		return ex.mkStr(fmt.Sprintf("%d", n))
	}
	m["strconv.FormatInt"] = func(ex *Exec, fr *frame, a []Value) Value {
		n := ex.concreteInt(fr, a[0], "FormatInt")
		base := ex.concreteInt(fr, a[1], "FormatInt base")
		return ex.mkStr(strconv.FormatInt(int64(n), int(base)))
	}
	m["strconv.FormatUint"] = func(ex *Exec, fr *frame, a []Value) Value {
		n := ex.concreteInt(fr, a[0], "FormatUint")
		base := ex.concreteInt(fr, a[1], "FormatUint base")
		return ex.mkStr(strconv.FormatUint(uint64(n), int(base)))
	}
	m["strconv.Quote"] = func(ex *Exec, fr *frame, a []Value) Value {
		s := a[0].(*Str)
		for _, b := range s.B {
			if b.Op != OConst {
				ex.abort("unsupported", "strconv.Quote of symbolic text at "+ex.where(fr))
			}
		}
		raw := make([]byte, len(s.B))
		for i, b := range s.B {
			raw[i] = byte(b.Val)
		}
		return ex.mkStr(strconv.Quote(string(raw)))
	}
	m["sort.Strings"] = func(ex *Exec, fr *frame, a []Value) Value {
		sl := a[0].(*Slice)
		if sl.Len < 2 {
			return nil
		}
		arr := sl.Arr.V.(*ArrayV)
		items := make([]*Str, sl.Len)
		for i := range items {
			items[i] = arr.E[sl.Off+i].(*Str)
		}
		// insertion sort, forking on comparisons
		for i := 1; i < len(items); i++ {
			for j := i; j > 0; j-- {
				if ex.X.Branch(ex.strLess(items[j], items[j-1])) {
					items[j], items[j-1] = items[j-1], items[j]
				} else {
					break
				}
			}
		}
		ne := append([]Value(nil), arr.E...)
		for i, it := range items {
			ne[sl.Off+i] = it
		}
		sl.Arr.V = &ArrayV{E: ne}
		return nil
	}
	m["reflect.DeepEqual"] = func(ex *Exec, fr *frame, a []Value) Value {
		x, y := a[0].(*Iface), a[1].(*Iface)
		if x.T == nil || y.T == nil {
			return ex.B.Bool(x.T == nil && y.T == nil)
		}
		if !types.Identical(x.T, y.T) {
			return ex.B.False
		}
		return ex.deepEqual(fr, x.T, x.V, y.V, map[[2]*Object]bool{})
	}

	// --- encoding/base64 (StdEncoding, exact) -----------------------------------
	m["(*encoding/base64.Encoding).EncodeToString"] = func(ex *Exec, fr *frame, a []Value) Value {
		src := a[1].(*Slice)
		B := ex.B
		var in []*Term
		for i := 0; i < src.Len; i++ {
			in = append(in, src.Arr.V.(*ArrayV).E[src.Off+i].(*Term))
		}
		enc := func(six *Term) *Term { // six: 8-bit term holding a value 0..63
			c := func(v uint64) *Term { return B.Const(8, v) }
			lt := func(v uint64) *Term { return B.Bin(OUlt, six, c(v)) }
			return B.Ite(lt(26), B.Bin(OAdd, six, c('A')),
				B.Ite(lt(52), B.Bin(OAdd, six, c('a'-26)),
					B.Ite(lt(62), B.Bin(OSub, six, c(52-'0')),
						B.Ite(B.Eq(six, c(62)), c('+'), c('/')))))
		}
		shr := func(x *Term, n uint64) *Term { return B.Bin(OLShr, x, B.Const(8, n)) }
		shl := func(x *Term, n uint64) *Term { return B.Bin(OShl, x, B.Const(8, n)) }
		and := func(x *Term, m uint64) *Term { return B.Bin(OBAnd, x, B.Const(8, m)) }
		or := func(x, y *Term) *Term { return B.Bin(OBOr, x, y) }
		out := &Str{}
		for i := 0; i < len(in); i += 3 {
			b0 := in[i]
			b1, b2 := B.Const(8, 0), B.Const(8, 0)
			if i+1 < len(in) {
				b1 = in[i+1]
			}
			if i+2 < len(in) {
				b2 = in[i+2]
			}
			out.B = append(out.B, enc(shr(b0, 2)), enc(or(shl(and(b0, 3), 4), shr(b1, 4))))
			if i+1 < len(in) {
				out.B = append(out.B, enc(or(shl(and(b1, 15), 2), shr(b2, 6))))
			} else {
				out.B = append(out.B, B.Const(8, '='))
			}
			if i+2 < len(in) {
				out.B = append(out.B, enc(and(b2, 63)))
			} else {
				out.B = append(out.B, B.Const(8, '='))
			}
		}
		return out
	}
	m["(*encoding/base64.Encoding).DecodeString"] = func(ex *Exec, fr *frame, a []Value) Value {
		s := a[1].(*Str)
		cs, ok := s.Concrete()
		if !ok {
			ex.unsupported(fr, "base64 decode of symbolic text")
		}
		dec, err := base64.StdEncoding.DecodeString(cs)
		if err != nil {
			return Tuple{&Slice{Nil: true}, ex.mkError("illegal base64 data")}
		}
		arr := &ArrayV{E: make([]Value, len(dec))}
		for i, b := range dec {
			arr.E[i] = B8(ex, b)
		}
		obj := ex.newObject(nil, arr, "base64")
		return Tuple{&Slice{Arr: obj, Len: len(dec), Cap: len(dec)}, &Iface{}}
	}

	// --- fmt / errors -------------------------------------------------------
	m["fmt.Sprintf"] = func(ex *Exec, fr *frame, a []Value) Value { return ex.sprintf(fr, a[0].(*Str), a[1].(*Slice)) }
	// Fprintf / Fprint / Fprintln: format, then one Write on the destination
	fprint := func(ex *Exec, fr *frame, w Value, s *Str) Value {
		arr := &ArrayV{E: make([]Value, len(s.B))}
		for i, b := range s.B {
			arr.E[i] = b
		}
		obj := ex.newObject(nil, arr, "fmt.Fprint buffer")
		return ex.invoke(fr, w.(*Iface), "Write", &Slice{Arr: obj, Len: len(arr.E), Cap: len(arr.E)})
	}
	m["fmt.Fprintf"] = func(ex *Exec, fr *frame, a []Value) Value {
		return fprint(ex, fr, a[0], ex.sprintf(fr, a[1].(*Str), a[2].(*Slice)))
	}
	m["fmt.Fprint"] = func(ex *Exec, fr *frame, a []Value) Value {
		return fprint(ex, fr, a[0], ex.sprintArgs(fr, a[1].(*Slice), false))
	}
	m["fmt.Fprintln"] = func(ex *Exec, fr *frame, a []Value) Value {
		return fprint(ex, fr, a[0], ex.sprintArgs(fr, a[1].(*Slice), true))
	}
	m["fmt.Sprint"] = func(ex *Exec, fr *frame, a []Value) Value { return ex.sprintArgs(fr, a[0].(*Slice), false) }
	m["fmt.Sprintln"] = func(ex *Exec, fr *frame, a []Value) Value { return ex.sprintArgs(fr, a[0].(*Slice), true) }
	m["fmt.Errorf"] = func(ex *Exec, fr *frame, a []Value) Value {
		return ex.mkErrorStr(ex.sprintf(fr, a[0].(*Str), a[1].(*Slice)))
	}
	m["fmt.Println"] = func(ex *Exec, fr *frame, a []Value) Value { return Tuple{ex.i64(0), &Iface{}} }
	m["fmt.Printf"] = func(ex *Exec, fr *frame, a []Value) Value { return Tuple{ex.i64(0), &Iface{}} }

	// --- net ------------------------------------------------------------------
	m["net.JoinHostPort"] = func(ex *Exec, fr *frame, a []Value) Value {
		h, p := a[0].(*Str), a[1].(*Str)
		// JoinHostPort brackets hosts containing ':' or '%'
		B := ex.B
		var or []*Term
		for _, b := range h.B {
			or = append(or, B.Eq(b, B.Const(8, ':')), B.Eq(b, B.Const(8, '%')))
		}
		r := &Str{}
		if ex.X.Branch(B.Or(or...)) {
			r.B = append(r.B, B.Const(8, '['))
			r.B = append(r.B, h.B...)
			r.B = append(r.B, B.Const(8, ']'))
		} else {
			r.B = append(r.B, h.B...)
		}
		r.B = append(r.B, B.Const(8, ':'))
		r.B = append(r.B, p.B...)
		return r
	}
}

func (ex *Exec) freshN(kind string) int {
	if ex.fresh == nil {
		ex.fresh = map[string]int{}
	}
	ex.fresh[kind]++
	return ex.fresh[kind]
}

// clock returns the current lower bound of the model clock (nanoseconds).
func (ex *Exec) clock() *Term {
	if ex.clockFloor == nil {
		ex.clockFloor = ex.B.Const(64, 0)
	}
	return ex.clockFloor
}

// timeNow returns a time.Time whose reading is a fresh variable >= every
// earlier reading.
func (ex *Exec) timeNow() *StructV {
	n := ex.freshN("now")
	t := ex.B.Var(fmt.Sprintf("now#%d", n), 64)
	in := &InputVar{Name: fmt.Sprintf("now#%d", n), Kind: "int", Terms: []*Term{t}}
	ex.X.inputs = append(ex.X.inputs, in)
	ex.X.AssumeNoCheck(ex.B.Bin(OSle, ex.clock(), t))
	ex.X.AssumeNoCheck(ex.B.Bin(OSle, t, ex.B.Const(64, 1<<50)))
	ex.clockFloor = t
	ex.logEvent("now", t)
	return &StructV{F: []Value{ex.B.Const(64, 0), t, &Ptr{}}}
}

func (ex *Exec) freshText(kind string, newline bool) Value {
	n := ex.freshN(kind)
	k := ex.X.choose(ex.X.SprintfMax + 1)
	r := &Str{}
	in := &InputVar{Name: fmt.Sprintf("%s#%d", kind, n), Kind: "str"}
	for i := 0; i < k; i++ {
		t := ex.B.Var(fmt.Sprintf("%s#%d#%d", kind, n, i), 8)
		r.B = append(r.B, t)
		in.Terms = append(in.Terms, t)
	}
	ex.X.inputs = append(ex.X.inputs, in)
	if newline {
		r.B = append(r.B, ex.B.Const(8, '\n'))
	}
	return r
}

// deepEqual implements reflect.DeepEqual structurally, returning a Bool term.
func (ex *Exec) deepEqual(fr *frame, t types.Type, x, y Value, seen map[[2]*Object]bool) *Term {
	B := ex.B
	switch a := x.(type) {
	case *Term:
		return B.Eq(a, y.(*Term))
	case *Str:
		return ex.strEq(a, y.(*Str))
	case *Ptr:
		b := y.(*Ptr)
		if a.Obj == nil || b.Obj == nil {
			return B.Bool(a.Obj == nil && b.Obj == nil)
		}
		if ptrEq(a, b) {
			return B.True
		}
		if len(a.Path) == 0 && len(b.Path) == 0 {
			k := [2]*Object{a.Obj, b.Obj}
			if seen[k] {
				return B.True
			}
			seen[k] = true
		}
		pt, ok := t.Underlying().(*types.Pointer)
		if !ok {
			return B.Bool(ptrEq(a, b))
		}
		return ex.deepEqual(fr, pt.Elem(), ex.load(a), ex.load(b), seen)
	case *StructV:
		b := y.(*StructV)
		st := t.Underlying().(*types.Struct)
		var cs []*Term
		for i := range a.F {
			cs = append(cs, ex.deepEqual(fr, st.Field(i).Type(), a.F[i], b.F[i], seen))
		}
		return B.And(cs...)
	case *ArrayV:
		b := y.(*ArrayV)
		et := t.Underlying().(*types.Array).Elem()
		var cs []*Term
		for i := range a.E {
			cs = append(cs, ex.deepEqual(fr, et, a.E[i], b.E[i], seen))
		}
		return B.And(cs...)
	case *Slice:
		b := y.(*Slice)
		if a.Nil != b.Nil || a.Len != b.Len {
			return B.False
		}
		et := t.Underlying().(*types.Slice).Elem()
		var cs []*Term
		for i := 0; i < a.Len; i++ {
			cs = append(cs, ex.deepEqual(fr, et, a.Arr.V.(*ArrayV).E[a.Off+i], b.Arr.V.(*ArrayV).E[b.Off+i], seen))
		}
		return B.And(cs...)
	case *Map:
		b := y.(*Map)
		if (a.M == nil) != (b.M == nil) {
			return B.False
		}
		if a.M == nil || a.M == b.M {
			return B.True
		}
		if len(a.M.Entries) != len(b.M.Entries) {
			return B.False
		}
		vt := t.Underlying().(*types.Map).Elem()
		var cs []*Term
		for _, e := range a.M.Entries {
			idx := ex.mapFind(b.M, e.K)
			if idx < 0 {
				return B.False
			}
			cs = append(cs, ex.deepEqual(fr, vt, e.V, b.M.Entries[idx].V, seen))
		}
		return B.And(cs...)
	case *Iface:
		b := y.(*Iface)
		if a.T == nil || b.T == nil {
			return B.Bool(a.T == nil && b.T == nil)
		}
		if !types.Identical(a.T, b.T) {
			return B.False
		}
		return ex.deepEqual(fr, a.T, a.V, b.V, seen)
	case *Func:
		b := y.(*Func)
		return B.Bool(a.Fn == nil && a.Builtin == nil && b.Fn == nil && b.Builtin == nil)
	case *Chan:
		return B.Bool(a.C == y.(*Chan).C)
	}
	ex.unsupported(fr, fmt.Sprintf("DeepEqual on %T", x))
	return nil
}

func B8(ex *Exec, b byte) *Term { return ex.B.Const(8, uint64(b)) }

// fmtArg renders one operand of a formatting call: strings and errors
// verbatim, constant integers in decimal, everything else as arbitrary text.
func (ex *Exec) fmtArg(fr *frame, v Value, verb byte) *Str {
	if i, ok := v.(*Iface); ok {
		if i.T == nil {
			return ex.mkStr("<nil>")
		}
		switch x := i.V.(type) {
		case *Str:
			if verb == 'q' {
				r := &Str{B: []*Term{ex.B.Const(8, '"')}}
				r.B = append(r.B, x.B...)
				r.B = append(r.B, ex.B.Const(8, '"'))
				return r
			}
			return x
		case *Term:
			if x.Op == OConst && x.W != 0 && (verb == 'd' || verb == 'v') {
				if isSigned(i.T) {
					return ex.mkStr(fmt.Sprintf("%d", sx(x.Val, x.W)))
				}
				return ex.mkStr(fmt.Sprintf("%d", x.Val))
			}
		}
		// error / Stringer
		ms := ex.P.Prog.MethodSets.MethodSet(i.T)
		for k := 0; k < ms.Len(); k++ {
			name := ms.At(k).Obj().Name()
			if (name == "Error" || name == "String") && ms.At(k).Type().(*types.Signature).Params().Len() == 0 {
				if s, ok := ex.invoke(fr, i, name).(*Str); ok {
					return s
				}
			}
		}
	}
	return ex.freshText("fmtarg", false).(*Str)
}

func (ex *Exec) sprintf(fr *frame, format *Str, args *Slice) *Str {
	f, ok := format.Concrete()
	if !ok {
		return ex.sprintfSym(fr, format, args)
	}
	var operands []Value
	for i := 0; i < args.Len; i++ {
		operands = append(operands, args.Arr.V.(*ArrayV).E[args.Off+i])
	}
	out := &Str{}
	k := 0
	for i := 0; i < len(f); i++ {
		if f[i] != '%' {
			out.B = append(out.B, ex.B.Const(8, uint64(f[i])))
			continue
		}
		j := i + 1
		for j < len(f) && strings.IndexByte("+-# 0123456789.", f[j]) >= 0 {
			j++
		}
		if j >= len(f) {
			out.B = append(out.B, ex.mkStr("%!(NOVERB)").B...)
			break
		}
		verb := f[j]
		i = j
		if verb == '%' {
			out.B = append(out.B, ex.B.Const(8, '%'))
			continue
		}
		if k >= len(operands) {
			out.B = append(out.B, ex.mkStr("%!"+string(verb)+"(MISSING)").B...)
			continue
		}
		out.B = append(out.B, ex.fmtArg(fr, operands[k], verb).B...)
		k++
	}
	return out
}

// sprintfSym: a format string with symbolic bytes (caller data used as a format).
// Every symbolic byte is split on being '%'; without any '%' the output is the
// format itself. After a '%' the simple cases are followed exactly as fmt does
// with no operand left: "%%" prints '%', "%c" prints "%!c(MISSING)", a trailing
// '%' prints "%!(NOVERB)". Flags, widths and remaining operands after a symbolic
// '%' are not modelled (the path is abandoned as unsupported).
func (ex *Exec) sprintfSym(fr *frame, format *Str, args *Slice) *Str {
	if args.Len > 0 {
		// a caller-supplied format WITH operands (Privmsgf and friends): any text may result
		return ex.freshText("sprintf", false).(*Str)
	}
	isByte := func(t *Term, c byte) bool {
		if t.Op == OConst {
			return byte(t.Val) == c
		}
		return ex.X.Branch(ex.B.Eq(t, ex.B.Const(8, uint64(c))))
	}
	out := &Str{}
	b := format.B
	for i := 0; i < len(b); i++ {
		if !isByte(b[i], '%') {
			out.B = append(out.B, b[i])
			continue
		}
		if i+1 >= len(b) {
			out.B = append(out.B, ex.mkStr("%!(NOVERB)").B...)
			break
		}
		v := b[i+1]
		i++
		if isByte(v, '%') {
			out.B = append(out.B, ex.B.Const(8, '%'))
			continue
		}
		if args.Len > 0 {
			ex.unsupported(fr, "fmt verb in a symbolic format string with operands")
		}
		if v.Op == OConst {
			if strings.IndexByte("+-# 0123456789.*[", byte(v.Val)) >= 0 || v.Val >= 0x80 {
				ex.unsupported(fr, "fmt flags after '%' in a symbolic format string")
			}
		} else {
			var special []*Term
			for _, c := range []byte("+-# 0123456789.*[") {
				special = append(special, ex.B.Eq(v, ex.B.Const(8, uint64(c))))
			}
			special = append(special, ex.B.Not(ex.B.Bin(OUlt, v, ex.B.Const(8, 0x80))))
			if ex.X.Branch(ex.B.Or(special...)) {
				ex.unsupported(fr, "fmt flags after '%' in a symbolic format string")
			}
		}
		out.B = append(out.B, ex.mkStr("%!").B...)
		out.B = append(out.B, v)
		out.B = append(out.B, ex.mkStr("(MISSING)").B...)
	}
	return out
}

func (ex *Exec) sprintArgs(fr *frame, args *Slice, ln bool) *Str {
	out := &Str{}
	for i := 0; i < args.Len; i++ {
		if i > 0 && ln {
			out.B = append(out.B, ex.B.Const(8, ' '))
		}
		out.B = append(out.B, ex.fmtArg(fr, args.Arr.V.(*ArrayV).E[args.Off+i], 'v').B...)
	}
	if ln {
		out.B = append(out.B, ex.B.Const(8, '\n'))
	}
	return out
}

// The mode/privilege String methods of package state format their receiver through
// reflection; they are pure functions of *receiver. Model: the receiver is read (so
// the lock monitor sees the access), the text is arbitrary.
func init() {
	for _, name := range []string{"ChanMode", "NickMode", "ChanPrivs"} {
		models["(*"+repoMod+"/state."+name+").String"] = func(ex *Exec, fr *frame, a []Value) Value {
			if p, ok := a[0].(*Ptr); ok && p.Obj != nil && ex.watchObj != nil {
				ex.guard(ex.watchObj[p.Obj], false, p.Obj.Label+" (formatted by String)")
			}
			return &Str{B: []*Term{ex.B.Const(8, '+')}}
		}
	}
}
