package sym

import (
	"fmt"
)

type modelFn func(ex *Exec, fr *frame, args []Value) Value

// models maps ssa.Function.String() to the model executed instead of the body.
var models = map[string]modelFn{}

func init() {
	m := models
	m["strings.Index"] = func(ex *Exec, fr *frame, a []Value) Value { return ex.mIndex(a[0].(*Str), a[1].(*Str), false) }
	m["strings.LastIndex"] = func(ex *Exec, fr *frame, a []Value) Value { return ex.mIndex(a[0].(*Str), a[1].(*Str), true) }
	m["strings.IndexByte"] = func(ex *Exec, fr *frame, a []Value) Value {
		return ex.mIndex(a[0].(*Str), &Str{B: []*Term{a[1].(*Term)}}, false)
	}
	m["strings.LastIndexByte"] = func(ex *Exec, fr *frame, a []Value) Value {
		return ex.mIndex(a[0].(*Str), &Str{B: []*Term{a[1].(*Term)}}, true)
	}
	m["strings.IndexRune"] = func(ex *Exec, fr *frame, a []Value) Value {
		r := a[1].(*Term)
		ex.requireASCIIRune(fr, r)
		return ex.mIndex(a[0].(*Str), &Str{B: []*Term{ex.B.Zext(r, 8)}}, false)
	}
	m["strings.IndexAny"] = func(ex *Exec, fr *frame, a []Value) Value { return ex.mIndexAny(fr, a[0].(*Str), a[1].(*Str), false) }
	m["strings.LastIndexAny"] = func(ex *Exec, fr *frame, a []Value) Value { return ex.mIndexAny(fr, a[0].(*Str), a[1].(*Str), true) }
	m["strings.Contains"] = func(ex *Exec, fr *frame, a []Value) Value {
		return ex.containsTerm(a[0].(*Str), a[1].(*Str))
	}
	m["strings.ContainsAny"] = func(ex *Exec, fr *frame, a []Value) Value {
		s, cs := a[0].(*Str), a[1].(*Str)
		ex.requireASCII(fr, cs)
		var or []*Term
		for _, b := range s.B {
			or = append(or, ex.inSet(b, cs))
		}
		return ex.B.Or(or...)
	}
	m["strings.ContainsRune"] = func(ex *Exec, fr *frame, a []Value) Value {
		r := a[1].(*Term)
		ex.requireASCIIRune(fr, r)
		return ex.containsTerm(a[0].(*Str), &Str{B: []*Term{ex.B.Zext(r, 8)}})
	}
	m["strings.HasPrefix"] = func(ex *Exec, fr *frame, a []Value) Value {
		s, p := a[0].(*Str), a[1].(*Str)
		if len(p.B) > len(s.B) {
			return ex.B.False
		}
		return ex.strEq(&Str{B: s.B[:len(p.B)]}, p)
	}
	m["strings.HasSuffix"] = func(ex *Exec, fr *frame, a []Value) Value {
		s, p := a[0].(*Str), a[1].(*Str)
		if len(p.B) > len(s.B) {
			return ex.B.False
		}
		return ex.strEq(&Str{B: s.B[len(s.B)-len(p.B):]}, p)
	}
	m["strings.TrimPrefix"] = func(ex *Exec, fr *frame, a []Value) Value {
		s, p := a[0].(*Str), a[1].(*Str)
		if len(p.B) <= len(s.B) && ex.X.Branch(ex.strEq(&Str{B: s.B[:len(p.B)]}, p)) {
			return &Str{B: s.B[len(p.B):]}
		}
		return s
	}
	m["strings.TrimSuffix"] = func(ex *Exec, fr *frame, a []Value) Value {
		s, p := a[0].(*Str), a[1].(*Str)
		if len(p.B) <= len(s.B) && ex.X.Branch(ex.strEq(&Str{B: s.B[len(s.B)-len(p.B):]}, p)) {
			return &Str{B: s.B[:len(s.B)-len(p.B)]}
		}
		return s
	}
	m["strings.Split"] = func(ex *Exec, fr *frame, a []Value) Value {
		return ex.mSplit(fr, a[0].(*Str), a[1].(*Str), -1, 0)
	}
	m["strings.SplitN"] = func(ex *Exec, fr *frame, a []Value) Value {
		return ex.mSplit(fr, a[0].(*Str), a[1].(*Str), ex.concreteInt(fr, a[2], "SplitN n"), 0)
	}
	m["strings.SplitAfter"] = func(ex *Exec, fr *frame, a []Value) Value {
		return ex.mSplit(fr, a[0].(*Str), a[1].(*Str), -1, len(a[1].(*Str).B))
	}
	m["strings.SplitAfterN"] = func(ex *Exec, fr *frame, a []Value) Value {
		return ex.mSplit(fr, a[0].(*Str), a[1].(*Str), ex.concreteInt(fr, a[2], "SplitAfterN n"), len(a[1].(*Str).B))
	}
	m["strings.Cut"] = func(ex *Exec, fr *frame, a []Value) Value {
		s, sep := a[0].(*Str), a[1].(*Str)
		i := ex.indexFork(s, sep, false)
		if i >= 0 {
			return Tuple{&Str{B: s.B[:i]}, &Str{B: s.B[i+len(sep.B):]}, ex.B.True}
		}
		return Tuple{s, &Str{}, ex.B.False}
	}
	m["strings.Fields"] = func(ex *Exec, fr *frame, a []Value) Value {
		s := a[0].(*Str)
		ex.requireNoUnicodeSpace(fr, s)
		var fields []Value
		start := -1
		for i, b := range s.B {
			if ex.X.Branch(ex.isSpace(b)) {
				if start >= 0 {
					fields = append(fields, &Str{B: s.B[start:i]})
					start = -1
				}
			} else if start < 0 {
				start = i
			}
		}
		if start >= 0 {
			fields = append(fields, &Str{B: s.B[start:]})
		}
		return ex.strSlice(fields)
	}
	m["strings.TrimSpace"] = func(ex *Exec, fr *frame, a []Value) Value {
		s := a[0].(*Str)
		ex.requireNoUnicodeSpace(fr, s)
		return ex.trimFunc(s, func(b *Term) *Term { return ex.isSpace(b) }, true, true)
	}
	trim := func(l, r bool) modelFn {
		return func(ex *Exec, fr *frame, a []Value) Value {
			s, cs := a[0].(*Str), a[1].(*Str)
			if len(cs.B) == 0 {
				return s
			}
			ex.requireASCII(fr, cs)
			return ex.trimFunc(s, func(b *Term) *Term { return ex.inSet(b, cs) }, l, r)
		}
	}
	m["strings.Trim"] = trim(true, true)
	m["strings.TrimLeft"] = trim(true, false)
	m["strings.TrimRight"] = trim(false, true)
	m["strings.ToUpper"] = func(ex *Exec, fr *frame, a []Value) Value { return ex.caseMap(fr, a[0].(*Str), true) }
	m["strings.ToLower"] = func(ex *Exec, fr *frame, a []Value) Value { return ex.caseMap(fr, a[0].(*Str), false) }
	m["strings.EqualFold"] = func(ex *Exec, fr *frame, a []Value) Value {
		s, t := a[0].(*Str), a[1].(*Str)
		ex.requireASCII(fr, s)
		ex.requireASCII(fr, t)
		return ex.strEq(ex.caseMap(fr, s, false), ex.caseMap(fr, t, false))
	}
	m["strings.Join"] = func(ex *Exec, fr *frame, a []Value) Value {
		sl, sep := a[0].(*Slice), a[1].(*Str)
		r := &Str{}
		for i := 0; i < sl.Len; i++ {
			if i > 0 {
				r.B = append(r.B, sep.B...)
			}
			r.B = append(r.B, sl.Arr.V.(*ArrayV).E[sl.Off+i].(*Str).B...)
		}
		return r
	}
	m["strings.Repeat"] = func(ex *Exec, fr *frame, a []Value) Value {
		s := a[0].(*Str)
		n := ex.concreteInt(fr, a[1], "Repeat count")
		if n < 0 {
			ex.goPanicRuntime("strings: negative Repeat count")
		}
		r := &Str{}
		for i := 0; i < n; i++ {
			r.B = append(r.B, s.B...)
		}
		return r
	}
	m["strings.Count"] = func(ex *Exec, fr *frame, a []Value) Value {
		s, sep := a[0].(*Str), a[1].(*Str)
		if len(sep.B) == 0 {
			ex.requireASCII(fr, s)
			return ex.i64(int64(len(s.B) + 1))
		}
		n := 0
		for i := 0; i+len(sep.B) <= len(s.B); {
			if ex.X.Branch(ex.matchAt(s, sep, i)) {
				n++
				i += len(sep.B)
			} else {
				i++
			}
		}
		return ex.i64(int64(n))
	}
	m["strings.Replace"] = func(ex *Exec, fr *frame, a []Value) Value {
		return ex.mReplace(fr, a[0].(*Str), a[1].(*Str), a[2].(*Str), ex.concreteInt(fr, a[3], "Replace n"))
	}
	m["strings.ReplaceAll"] = func(ex *Exec, fr *frame, a []Value) Value {
		return ex.mReplace(fr, a[0].(*Str), a[1].(*Str), a[2].(*Str), -1)
	}
	m["strings.NewReplacer"] = func(ex *Exec, fr *frame, a []Value) Value {
		sl := a[0].(*Slice)
		if sl.Len%2 == 1 {
			ex.goPanicRuntime("strings.NewReplacer: odd argument count")
		}
		var pairs []*Str
		for i := 0; i < sl.Len; i++ {
			pairs = append(pairs, sl.Arr.V.(*ArrayV).E[sl.Off+i].(*Str))
		}
		rt := ex.P.Pkgs["strings"].Type("Replacer").Type()
		obj := ex.newObject(rt, &Opaque{T: rt, Note: "Replacer"}, "strings.Replacer")
		obj.Ghost = pairs
		return &Ptr{Obj: obj}
	}
	m["(*strings.Replacer).Replace"] = func(ex *Exec, fr *frame, a []Value) Value {
		p := a[0].(*Ptr)
		if p.Obj == nil {
			ex.goPanicRuntime("nil pointer dereference")
		}
		pairs := p.Obj.Ghost.([]*Str)
		s := a[1].(*Str)
		for i := 0; i < len(pairs); i += 2 {
			if len(pairs[i].B) == 0 {
				ex.unsupported(fr, "Replacer with empty old string")
			}
		}
		r := &Str{}
		for i := 0; i < len(s.B); {
			matched := false
			for k := 0; k < len(pairs); k += 2 {
				old := pairs[k]
				if i+len(old.B) > len(s.B) {
					continue
				}
				if ex.X.Branch(ex.matchAt(s, old, i)) {
					r.B = append(r.B[:len(r.B):len(r.B)], pairs[k+1].B...)
					i += len(old.B)
					matched = true
					break
				}
			}
			if !matched {
				r.B = append(r.B[:len(r.B):len(r.B)], s.B[i])
				i++
			}
		}
		return r
	}
	// exact for every byte string: the library's own decoding loop, forking on the byte classes
	m["unicode/utf8.RuneCountInString"] = func(ex *Exec, fr *frame, a []Value) Value {
		s := a[0].(*Str)
		B := ex.B
		in := func(b *Term, lo, hi uint64) bool {
			return ex.X.Branch(B.And(B.Bin(OUle, B.Const(8, lo), b), B.Bin(OUle, b, B.Const(8, hi))))
		}
		n, i, ns := 0, 0, len(s.B)
		for i < ns {
			c := s.B[i]
			n++
			if in(c, 0, 0x7F) {
				i++
				continue
			}
			size, lo, hi := 1, uint64(0x80), uint64(0xBF)
			switch {
			case in(c, 0xC2, 0xDF):
				size = 2
			case in(c, 0xE0, 0xE0):
				size, lo = 3, 0xA0
			case in(c, 0xE1, 0xEC), in(c, 0xEE, 0xEF):
				size = 3
			case in(c, 0xED, 0xED):
				size, hi = 3, 0x9F
			case in(c, 0xF0, 0xF0):
				size, lo = 4, 0x90
			case in(c, 0xF1, 0xF3):
				size = 4
			case in(c, 0xF4, 0xF4):
				size, hi = 4, 0x8F
			}
			if size == 1 || i+size > ns {
				i++
				continue
			}
			ok := in(s.B[i+1], lo, hi)
			for k := 2; ok && k < size; k++ {
				ok = in(s.B[i+k], 0x80, 0xBF)
			}
			if ok {
				i += size
			} else {
				i++
			}
		}
		return ex.i64(int64(n))
	}
}

func (ex *Exec) strSlice(items []Value) *Slice {
	arr := &ArrayV{E: items}
	obj := ex.newObject(nil, arr, "[]string")
	if len(items) == 0 {
		return &Slice{Arr: obj, Len: 0, Cap: 0}
	}
	return &Slice{Arr: obj, Len: len(items), Cap: len(items)}
}

func (ex *Exec) requireASCII(fr *frame, s *Str) {
	for _, b := range s.B {
		if b.Op == OConst {
			if b.Val >= 0x80 {
				ex.abort("unsupported", "non-ASCII byte reaches a Unicode-aware strings function at "+ex.where(fr))
			}
			continue
		}
		if !ex.X.Branch(ex.B.Bin(OUlt, b, ex.B.Const(8, 0x80))) {
			ex.abort("unsupported", "non-ASCII byte reaches a Unicode-aware strings function at "+ex.where(fr))
		}
	}
}

// requireNoUnicodeSpace: for the white-space functions a byte >= 0x80 matters only
// as part of a multi-byte space (U+0085, U+00A0, U+1680, U+2000-200A, U+2028/9,
// U+202F, U+205F, U+3000), whose encodings all begin with C2, E1, E2 or E3. Without
// such a lead byte every non-ASCII byte (valid or not) is a non-space, exactly as
// the standard library treats it; with one the path is refused as unsupported.
func (ex *Exec) requireNoUnicodeSpace(fr *frame, s *Str) {
	for _, b := range s.B {
		if b.Op == OConst {
			if b.Val == 0xC2 || b.Val == 0xE1 || b.Val == 0xE2 || b.Val == 0xE3 {
				ex.abort("unsupported", "possible multi-byte Unicode space reaches a white-space function at "+ex.where(fr))
			}
			continue
		}
		lead := ex.B.Or(ex.B.Eq(b, ex.B.Const(8, 0xC2)), ex.B.Eq(b, ex.B.Const(8, 0xE1)), ex.B.Eq(b, ex.B.Const(8, 0xE2)), ex.B.Eq(b, ex.B.Const(8, 0xE3)))
		if ex.X.Branch(lead) {
			ex.abort("unsupported", "possible multi-byte Unicode space reaches a white-space function at "+ex.where(fr))
		}
	}
}

func (ex *Exec) requireASCIIRune(fr *frame, r *Term) {
	if !ex.X.Branch(ex.B.Bin(OUlt, r, ex.B.Const(r.W, 0x80))) {
		ex.abort("unsupported", "non-ASCII rune at "+ex.where(fr))
	}
}

func (ex *Exec) isSpace(b *Term) *Term {
	B := ex.B
	return B.Or(B.Eq(b, B.Const(8, ' ')), B.And(B.Bin(OUle, B.Const(8, 9), b), B.Bin(OUle, b, B.Const(8, 13))))
}

func (ex *Exec) inSet(b *Term, set *Str) *Term {
	var or []*Term
	for _, c := range set.B {
		or = append(or, ex.B.Eq(b, c))
	}
	return ex.B.Or(or...)
}

func (ex *Exec) matchAt(s, sep *Str, i int) *Term {
	cs := make([]*Term, 0, len(sep.B))
	for j := range sep.B {
		c := ex.B.Eq(s.B[i+j], sep.B[j])
		if c == ex.B.False {
			return ex.B.False
		}
		cs = append(cs, c)
	}
	return ex.B.And(cs...)
}

func (ex *Exec) containsTerm(s, sub *Str) *Term {
	if len(sub.B) == 0 {
		return ex.B.True
	}
	var or []*Term
	for i := 0; i+len(sub.B) <= len(s.B); i++ {
		or = append(or, ex.matchAt(s, sub, i))
	}
	return ex.B.Or(or...)
}

// indexFork forks over the (first or last) match position; -1 if none.
func (ex *Exec) indexFork(s, sep *Str, last bool) int {
	n, m := len(s.B), len(sep.B)
	if m == 0 {
		if last {
			return n
		}
		return 0
	}
	if last {
		for i := n - m; i >= 0; i-- {
			if ex.X.Branch(ex.matchAt(s, sep, i)) {
				return i
			}
		}
		return -1
	}
	for i := 0; i+m <= n; i++ {
		if ex.X.Branch(ex.matchAt(s, sep, i)) {
			return i
		}
	}
	return -1
}

// mIndex returns the index as a constant (forking) or, with SymIndex, as an
// ite-chain term without forking.
func (ex *Exec) mIndex(s, sep *Str, last bool) Value {
	if !ex.X.SymIndex {
		return ex.i64(int64(ex.indexFork(s, sep, last)))
	}
	n, m := len(s.B), len(sep.B)
	if m == 0 {
		if last {
			return ex.i64(int64(n))
		}
		return ex.i64(0)
	}
	w := uint8(8)
	if n >= 120 {
		w = 16
	}
	res := ex.B.Const(w, ^uint64(0))
	if last {
		for i := 0; i+m <= n; i++ {
			res = ex.B.Ite(ex.matchAt(s, sep, i), ex.B.Const(w, uint64(i)), res)
		}
	} else {
		for i := n - m; i >= 0; i-- {
			res = ex.B.Ite(ex.matchAt(s, sep, i), ex.B.Const(w, uint64(i)), res)
		}
	}
	return ex.B.Sext(res, 64)
}

func (ex *Exec) mIndexAny(fr *frame, s, chars *Str, last bool) Value {
	// with an all-ASCII set the real function compares bytes
	ex.requireASCII(fr, chars)
	if last {
		for i := len(s.B) - 1; i >= 0; i-- {
			if ex.X.Branch(ex.inSet(s.B[i], chars)) {
				return ex.i64(int64(i))
			}
		}
		return ex.i64(-1)
	}
	for i := range s.B {
		if ex.X.Branch(ex.inSet(s.B[i], chars)) {
			return ex.i64(int64(i))
		}
	}
	return ex.i64(-1)
}

// mSplit implements strings.genSplit(s, sep, sepSave, n).
func (ex *Exec) mSplit(fr *frame, s, sep *Str, n int, sepSave int) Value {
	if n == 0 {
		return &Slice{Nil: true}
	}
	if len(sep.B) == 0 {
		// explode into (ASCII) characters
		ex.requireASCII(fr, s)
		cnt := len(s.B)
		if n > 0 && n < cnt {
			cnt = n
		}
		var parts []Value
		for i := 0; i < cnt; i++ {
			if i == cnt-1 {
				parts = append(parts, &Str{B: s.B[i:]})
			} else {
				parts = append(parts, &Str{B: s.B[i : i+1]})
			}
		}
		return ex.strSlice(parts)
	}
	var parts []Value
	start := 0
	for i := 0; i+len(sep.B) <= len(s.B); {
		if n > 0 && len(parts) >= n-1 {
			break
		}
		if ex.X.Branch(ex.matchAt(s, sep, i)) {
			parts = append(parts, &Str{B: s.B[start : i+sepSave]})
			i += len(sep.B)
			start = i
		} else {
			i++
		}
	}
	parts = append(parts, &Str{B: s.B[start:]})
	return ex.strSlice(parts)
}

func (ex *Exec) trimFunc(s *Str, in func(*Term) *Term, left, right bool) *Str {
	lo, hi := 0, len(s.B)
	if left {
		for lo < hi && ex.X.Branch(in(s.B[lo])) {
			lo++
		}
	}
	if right {
		for hi > lo && ex.X.Branch(in(s.B[hi-1])) {
			hi--
		}
	}
	return &Str{B: s.B[lo:hi]}
}

func (ex *Exec) caseMap(fr *frame, s *Str, upper bool) *Str {
	ex.requireASCII(fr, s)
	B := ex.B
	r := &Str{B: make([]*Term, len(s.B))}
	for i, b := range s.B {
		if upper {
			isl := B.And(B.Bin(OUle, B.Const(8, 'a'), b), B.Bin(OUle, b, B.Const(8, 'z')))
			r.B[i] = B.Ite(isl, B.Bin(OSub, b, B.Const(8, 32)), b)
		} else {
			isu := B.And(B.Bin(OUle, B.Const(8, 'A'), b), B.Bin(OUle, b, B.Const(8, 'Z')))
			r.B[i] = B.Ite(isu, B.Bin(OAdd, b, B.Const(8, 32)), b)
		}
	}
	return r
}

func (ex *Exec) mReplace(fr *frame, s, old, nw *Str, n int) Value {
	if n == 0 || (len(old.B) == len(nw.B) && ex.strEq(old, nw) == ex.B.True) {
		return s
	}
	if len(old.B) == 0 {
		ex.unsupported(fr, "strings.Replace with empty old")
	}
	r := &Str{}
	cnt := 0
	for i := 0; i < len(s.B); {
		if (n < 0 || cnt < n) && i+len(old.B) <= len(s.B) && ex.X.Branch(ex.matchAt(s, old, i)) {
			r.B = append(r.B[:len(r.B):len(r.B)], nw.B...)
			i += len(old.B)
			cnt++
		} else {
			r.B = append(r.B[:len(r.B):len(r.B)], s.B[i])
			i++
		}
	}
	return r
}

var _ = fmt.Sprintf
