package sym

import (
	"fmt"
	"go/types"

	"golang.org/x/tools/go/ssa"
)

// prepareCall resolves the callee and evaluates the arguments.
func (ex *Exec) prepareCall(fr *frame, c *ssa.CallCommon) (*Func, []Value) {
	var args []Value
	var f *Func
	if c.IsInvoke() {
		recv := ex.get(fr, c.Value).(*Iface)
		if recv.T == nil {
			ex.goPanicRuntime("nil pointer dereference (method call on nil interface)")
		}
		fn := ex.P.lookupMethod(recv.T, c.Method)
		if fn == nil {
			ex.unsupported(fr, fmt.Sprintf("method %s on %s", c.Method.Name(), recv.T))
		}
		f = &Func{Fn: fn}
		args = append(args, recv.V)
	} else {
		switch v := ex.get(fr, c.Value).(type) {
		case *Func:
			f = v
		default:
			ex.unsupported(fr, fmt.Sprintf("call of %T", v))
		}
	}
	for _, a := range c.Args {
		args = append(args, ex.get(fr, a))
	}
	return f, args
}

func (ex *Exec) callBuiltin(fr *frame, b *ssa.Builtin, args []Value, site ssa.Instruction) Value {
	switch b.Name() {
	case "len":
		switch a := args[0].(type) {
		case *Str:
			return ex.i64(int64(len(a.B)))
		case *Slice:
			return ex.i64(int64(a.Len))
		case *Map:
			if a.M == nil {
				return ex.i64(0)
			}
			return ex.i64(int64(len(a.M.Entries)))
		case *Chan:
			if a.C == nil {
				return ex.i64(0)
			}
			return ex.i64(int64(len(a.C.Buf)))
		case *ArrayV:
			return ex.i64(int64(len(a.E)))
		case *Ptr:
			at := b.Type().(*types.Signature).Params().At(0).Type().Underlying().(*types.Pointer).Elem().Underlying().(*types.Array)
			return ex.i64(at.Len())
		}
	case "cap":
		switch a := args[0].(type) {
		case *Slice:
			return ex.i64(int64(a.Cap))
		case *Chan:
			if a.C == nil {
				return ex.i64(0)
			}
			return ex.i64(int64(a.C.Cap))
		case *ArrayV:
			return ex.i64(int64(len(a.E)))
		}
	case "append":
		return ex.appendOp(fr, b, args)
	case "copy":
		dst := args[0].(*Slice)
		n := 0
		switch src := args[1].(type) {
		case *Slice:
			n = min(dst.Len, src.Len)
			if n > 0 {
				sa := src.Arr.V.(*ArrayV)
				vals := append([]Value(nil), sa.E[src.Off:src.Off+n]...)
				da := dst.Arr.V.(*ArrayV)
				ne := append([]Value(nil), da.E...)
				copy(ne[dst.Off:], vals)
				dst.Arr.V = &ArrayV{E: ne}
			}
		case *Str:
			n = min(dst.Len, len(src.B))
			if n > 0 {
				da := dst.Arr.V.(*ArrayV)
				ne := append([]Value(nil), da.E...)
				for i := 0; i < n; i++ {
					ne[dst.Off+i] = src.B[i]
				}
				dst.Arr.V = &ArrayV{E: ne}
			}
		}
		return ex.i64(int64(n))
	case "delete":
		m := args[0].(*Map)
		if m.M != nil {
			ex.mapDelete(m.M, args[1])
		}
		return nil
	case "close":
		c := args[0].(*Chan)
		if c.C == nil {
			ex.goPanicRuntime("close of nil channel")
		}
		if c.C.Closed {
			ex.goPanicRuntime("close of closed channel")
		}
		c.C.Closed = true
		return nil
	case "recover":
		return ex.doRecover(fr)
	case "print", "println":
		return nil
	case "min", "max":
		r := args[0].(*Term)
		signed := isSigned(b.Type().(*types.Signature).Params().At(0).Type())
		for _, a := range args[1:] {
			t := a.(*Term)
			var lt *Term
			if signed {
				lt = ex.B.Bin(OSlt, t, r)
			} else {
				lt = ex.B.Bin(OUlt, t, r)
			}
			if b.Name() == "max" {
				lt = ex.B.Not(ex.B.Or(lt, ex.B.Eq(t, r)))
			}
			r = ex.B.Ite(lt, t, r)
		}
		return r
	}
	ex.unsupported(fr, "builtin "+b.Name())
	return nil
}

// doRecover implements recover(): it stops the panic of the function that
// deferred the (possibly wrapped) caller of recover.
func (ex *Exec) doRecover(fr *frame) Value {
	// fr is the frame calling recover(). Its caller — skipping synthetic
	// wrappers (thunks, bound-method closures) — must be a panicking frame
	// that is running its deferred calls.
	c := fr.caller
	for c != nil && c.fn.Synthetic != "" && !c.panicking {
		c = c.caller
	}
	if c != nil && c.panicking {
		c.panicking = false
		p := c.panic
		c.panic = nil
		ex.events = append(ex.events, "recovered:"+p.Kind+"@"+p.Where)
		ex.X.noteRecovered(p)
		if p.Val == nil {
			return &Iface{}
		}
		return p.Val
	}
	return &Iface{}
}

func (ex *Exec) appendOp(fr *frame, b *ssa.Builtin, args []Value) Value {
	s := args[0].(*Slice)
	var add []Value
	switch t := args[1].(type) {
	case *Slice:
		if t.Len > 0 {
			ta := t.Arr.V.(*ArrayV)
			add = append(add, ta.E[t.Off:t.Off+t.Len]...)
		}
	case *Str:
		for _, x := range t.B {
			add = append(add, x)
		}
	}
	if len(add) == 0 {
		return s
	}
	if !s.Nil && s.Len+len(add) <= s.Cap {
		arr := s.Arr.V.(*ArrayV)
		ne := append([]Value(nil), arr.E...)
		copy(ne[s.Off+s.Len:], add)
		s.Arr.V = &ArrayV{E: ne}
		return &Slice{Arr: s.Arr, Off: s.Off, Len: s.Len + len(add), Cap: s.Cap}
	}
	// grow: new backing array (capacity = exact doubling policy is not
	// observable except through cap(); use 2x+needed like the runtime roughly)
	n := s.Len + len(add)
	c := s.Cap * 2
	if c < n {
		c = n
	}
	et := b.Type().(*types.Signature).Params().At(0).Type().Underlying().(*types.Slice).Elem()
	ns := ex.makeSlice(et, n, c)
	arr := ns.Arr.V.(*ArrayV)
	if s.Len > 0 {
		copy(arr.E, s.Arr.V.(*ArrayV).E[s.Off:s.Off+s.Len])
	}
	copy(arr.E[s.Len:], add)
	return ns
}

// ---- channels, select (blocking via the coroutine scheduler) ---------------------

// runPending lets all other goroutines run until they finish or block.
func (ex *Exec) runPending() { ex.settle() }

func (ex *Exec) chanSend(fr *frame, c *Chan, v Value) {
	ex.yieldPoint()
	if c.C == nil {
		ex.block(func() bool { return false }, "send on nil channel")
	}
	ch := c.C
	if ch.Closed {
		ex.goPanicRuntime("send on closed channel")
	}
	if ch.Cap == 0 && !ex.X.UnboundedChans {
		// rendezvous: hand the value to a parked receiver
		ch.Buf = append(ch.Buf[:len(ch.Buf):len(ch.Buf)], v)
		ch.sendWaiting++
		n := ch.taken
		ex.block(func() bool { return ch.taken > n || ch.Closed }, "send on unbuffered channel")
		ch.sendWaiting--
		return
	}
	ex.block(func() bool { return len(ch.Buf) < ch.Cap || ex.X.UnboundedChans || ch.Closed }, fmt.Sprintf("send on full channel (cap %d)", ch.Cap))
	if ch.Closed {
		ex.goPanicRuntime("send on closed channel")
	}
	ch.Buf = append(ch.Buf[:len(ch.Buf):len(ch.Buf)], v)
}

func (ex *Exec) chanRecv(fr *frame, c *Chan) (Value, bool) {
	ex.yieldPoint()
	if c.C == nil {
		ex.block(func() bool { return false }, "receive on nil channel")
	}
	ch := c.C
	ex.block(func() bool { return len(ch.Buf) > 0 || ch.Closed }, "receive on empty channel")
	if len(ch.Buf) > 0 {
		v := ch.Buf[0]
		ch.Buf = ch.Buf[1:]
		ch.taken++
		ex.timerFired(ch)
		return v, true
	}
	return ex.zero(ch.ET), false
}

// timerFired: a value was received from a time.Timer's channel, i.e. the timer has expired:
// like time.After, that is a wait of (at least) the armed duration - logged as a "sleep"
// event and reflected in the model clock, which is then no earlier than arming time + d.
func (ex *Exec) timerFired(ch *ChanObj) {
	if ch.timerD == nil {
		return
	}
	d, arm := ch.timerD, ch.timerArm
	ch.timerD, ch.timerArm = nil, nil
	ex.logEvent("sleep", d)
	B := ex.B
	adv := B.Var(fmt.Sprintf("sleepextra#%d", ex.freshN("sleep")), 64)
	ex.X.AssumeNoCheck(B.Bin(OSle, B.Const(64, 0), adv))
	ex.X.AssumeNoCheck(B.Bin(OSle, adv, B.Const(64, 1<<40)))
	dd := B.Ite(B.Bin(OSlt, d, B.Const(64, 0)), B.Const(64, 0), d)
	target := B.Bin(OAdd, arm, B.Bin(OAdd, dd, adv))
	now := ex.clock()
	ex.clockFloor = B.Ite(B.Bin(OSlt, now, target), target, now)
}

func (ex *Exec) selectOp(fr *frame, in *ssa.Select) Value {
	ex.yieldPoint()
	// result tuple: (index int, recvOk bool, r_0 T_0, ... r_n-1 T_n-1)
	ready := func() []int {
		var rs []int
		for i, st := range in.States {
			c := ex.get(fr, st.Chan).(*Chan)
			if c.C == nil {
				continue
			}
			if st.Dir == types.SendOnly {
				if c.C.Closed || len(c.C.Buf) < c.C.Cap || ex.X.UnboundedChans {
					rs = append(rs, i)
				}
			} else if len(c.C.Buf) > 0 || c.C.Closed {
				rs = append(rs, i)
			}
		}
		return rs
	}
	rs := ready()
	if len(rs) == 0 && in.Blocking {
		ex.block(func() bool { return len(ready()) > 0 }, "select with no ready case")
		rs = ready()
	}
	idx := -1
	var rv Value
	rok := false
	if len(rs) > 0 {
		idx = rs[0]
		if len(rs) > 1 && ex.X.SchedExplore && ex.sch.switches < ex.X.MaxSwitches {
			// Go picks a ready case at random: every choice is a legal behaviour (delay-bounded)
			if k := ex.schedChoice(len(rs)); k != 0 {
				ex.sch.switches++
				idx = rs[k]
			}
		}
		st := in.States[idx]
		c := ex.get(fr, st.Chan).(*Chan)
		if st.Dir == types.SendOnly {
			if c.C.Closed {
				ex.goPanicRuntime("send on closed channel")
			}
			c.C.Buf = append(c.C.Buf[:len(c.C.Buf):len(c.C.Buf)], ex.get(fr, st.Send))
		} else if len(c.C.Buf) > 0 {
			rv, rok = c.C.Buf[0], true
			c.C.Buf = c.C.Buf[1:]
			c.C.taken++
			ex.timerFired(c.C)
		} else {
			rv, rok = ex.zero(c.C.ET), false
		}
	}
	res := Tuple{ex.i64(int64(idx)), ex.B.Bool(rok)}
	for i, st := range in.States {
		if st.Dir == types.RecvOnly {
			if i == idx {
				res = append(res, rv)
			} else {
				res = append(res, ex.zero(st.Chan.Type().Underlying().(*types.Chan).Elem()))
			}
		}
	}
	return res
}
