package sym

import (
	"go/types"
)

// bufio model: the exact observable semantics of Reader.ReadString and
// Writer.WriteString/Flush over an arbitrary (harness-provided, symbolically
// executed) io.Reader / io.Writer, for lines shorter than the 4096-byte buffer.

type readerGhost struct {
	rd  *Iface
	buf *Str
	err Value // sticky error (nil => none)
}

type writerGhost struct {
	wr  *Iface
	buf *Str
	err Value
}

const bufioSize = 4096

// invoke calls a method by name on an interface value.
func (ex *Exec) invoke(fr *frame, recv *Iface, name string, args ...Value) Value {
	if recv.T == nil {
		ex.goPanicRuntime("nil pointer dereference (method call on nil interface)")
	}
	ms := ex.P.Prog.MethodSets.MethodSet(recv.T)
	for i := 0; i < ms.Len(); i++ {
		sel := ms.At(i)
		if sel.Obj().Name() == name {
			fn := ex.P.Prog.MethodValue(sel)
			return ex.call(fr, &Func{Fn: fn}, append([]Value{recv.V}, args...), nil)
		}
	}
	ex.unsupported(fr, "no method "+name+" on "+recv.T.String())
	return nil
}

func isNilIface(v Value) bool {
	i, ok := v.(*Iface)
	return ok && i.T == nil
}

func init() {
	m := models
	m["bufio.NewReader"] = func(ex *Exec, fr *frame, a []Value) Value {
		t := ex.P.Pkgs["bufio"].Type("Reader").Type()
		obj := ex.newObject(t, &Opaque{T: t}, "bufio.Reader")
		obj.Ghost = &readerGhost{rd: a[0].(*Iface), buf: &Str{}}
		return &Ptr{Obj: obj}
	}
	m["bufio.NewWriter"] = func(ex *Exec, fr *frame, a []Value) Value {
		t := ex.P.Pkgs["bufio"].Type("Writer").Type()
		obj := ex.newObject(t, &Opaque{T: t}, "bufio.Writer")
		obj.Ghost = &writerGhost{wr: a[0].(*Iface), buf: &Str{}}
		return &Ptr{Obj: obj}
	}
	m["bufio.NewReadWriter"] = func(ex *Exec, fr *frame, a []Value) Value {
		t := ex.P.Pkgs["bufio"].Type("ReadWriter").Type()
		obj := ex.newObject(t, &StructV{F: []Value{a[0], a[1]}}, "bufio.ReadWriter")
		return &Ptr{Obj: obj}
	}
	m["(*bufio.Reader).ReadString"] = func(ex *Exec, fr *frame, a []Value) Value {
		p := a[0].(*Ptr)
		if p.Obj == nil {
			ex.goPanicRuntime("nil pointer dereference")
		}
		g := p.Obj.Ghost.(*readerGhost)
		delim := &Str{B: []*Term{a[1].(*Term)}}
		for tries := 0; ; tries++ {
			if i := ex.indexFork(g.buf, delim, false); i >= 0 {
				out := &Str{B: g.buf.B[:i+1]}
				g.buf = &Str{B: g.buf.B[i+1:]}
				return Tuple{out, &Iface{}}
			}
			if g.err != nil {
				out := g.buf
				g.buf = &Str{}
				err := g.err
				g.err = nil
				return Tuple{out, err}
			}
			if tries > 100 {
				return Tuple{g.buf, ex.mkError("multiple Read calls return no data or error")}
			}
			// fill: one Read into the free part of the buffer
			free := bufioSize
			sl := ex.makeSlice(types.Typ[types.Uint8], free, free)
			res := ex.invoke(fr, g.rd, "Read", sl).(Tuple)
			n := ex.concreteInt(fr, res[0], "Read n")
			if n < 0 || n > free {
				panic(&goPanic{Val: &Iface{T: types.Typ[types.String], V: ex.mkStr("bufio: reader returned negative count from Read")}, Kind: "explicit:bufio bad Read count", Where: ex.where(fr)})
			}
			arr := sl.Arr.V.(*ArrayV)
			nb := append([]*Term(nil), g.buf.B...)
			for i := 0; i < n; i++ {
				nb = append(nb, arr.E[i].(*Term))
			}
			g.buf = &Str{B: nb}
			if !isNilIface(res[1]) {
				g.err = res[1]
			}
		}
	}
	// ReadLine: a line that does not fit the 4096-byte buffer is returned in
	// fragments with isPrefix set (the fragment boundary is the buffer size).
	m["(*bufio.Reader).ReadLine"] = func(ex *Exec, fr *frame, a []Value) Value {
		p := a[0].(*Ptr)
		if p.Obj == nil {
			ex.goPanicRuntime("nil pointer dereference")
		}
		g := p.Obj.Ghost.(*readerGhost)
		nl := &Str{B: []*Term{ex.B.Const(8, '\n')}}
		bytesOf := func(s []*Term) Value {
			arr := &ArrayV{E: make([]Value, len(s))}
			for i, b := range s {
				arr.E[i] = b
			}
			obj := ex.newObject(nil, arr, "ReadLine")
			return &Slice{Arr: obj, Len: len(s), Cap: len(s)}
		}
		for tries := 0; ; tries++ {
			win := g.buf
			if len(win.B) > bufioSize {
				win = &Str{B: g.buf.B[:bufioSize]}
			}
			if i := ex.indexFork(win, nl, false); i >= 0 {
				line := g.buf.B[:i]
				g.buf = &Str{B: g.buf.B[i+1:]}
				if len(line) > 0 && ex.X.Branch(ex.B.Eq(line[len(line)-1], ex.B.Const(8, '\r'))) {
					line = line[:len(line)-1]
				}
				return Tuple{bytesOf(line), ex.B.False, &Iface{}}
			}
			if len(g.buf.B) >= bufioSize {
				line := g.buf.B[:bufioSize]
				g.buf = &Str{B: g.buf.B[bufioSize:]}
				return Tuple{bytesOf(line), ex.B.True, &Iface{}}
			}
			if g.err != nil {
				if len(g.buf.B) == 0 {
					err := g.err
					g.err = nil
					return Tuple{&Slice{Nil: true}, ex.B.False, err}
				}
				line := g.buf.B
				g.buf = &Str{}
				return Tuple{bytesOf(line), ex.B.False, &Iface{}}
			}
			if tries > 100 {
				return Tuple{&Slice{Nil: true}, ex.B.False, ex.mkError("multiple Read calls return no data or error")}
			}
			sl := ex.makeSlice(types.Typ[types.Uint8], bufioSize, bufioSize)
			res := ex.invoke(fr, g.rd, "Read", sl).(Tuple)
			n := ex.concreteInt(fr, res[0], "Read n")
			arr := sl.Arr.V.(*ArrayV)
			nb := append([]*Term(nil), g.buf.B...)
			for i := 0; i < n; i++ {
				nb = append(nb, arr.E[i].(*Term))
			}
			g.buf = &Str{B: nb}
			if !isNilIface(res[1]) {
				g.err = res[1]
			}
		}
	}
	m["(*bufio.Writer).WriteString"] = func(ex *Exec, fr *frame, a []Value) Value {
		p := a[0].(*Ptr)
		if p.Obj == nil {
			ex.goPanicRuntime("nil pointer dereference")
		}
		g := p.Obj.Ghost.(*writerGhost)
		s := a[1].(*Str)
		if g.err != nil {
			return Tuple{ex.i64(0), g.err}
		}
		// as bufio does: fill the buffer, flush it, go on with the rest (the underlying
		// writers here do not implement io.StringWriter, so there is no direct large write)
		rest := s.B
		nn := 0
		for len(rest) > bufioSize-len(g.buf.B) && g.err == nil {
			n := bufioSize - len(g.buf.B)
			g.buf = &Str{B: append(append([]*Term(nil), g.buf.B...), rest[:n]...)}
			models["(*bufio.Writer).Flush"](ex, fr, []Value{a[0]})
			nn += n
			rest = rest[n:]
		}
		if g.err != nil {
			return Tuple{ex.i64(int64(nn)), g.err}
		}
		g.buf = &Str{B: append(append([]*Term(nil), g.buf.B...), rest...)}
		return Tuple{ex.i64(int64(len(s.B))), &Iface{}}
	}
	m["(*bufio.Writer).Write"] = func(ex *Exec, fr *frame, a []Value) Value {
		p := a[0].(*Ptr)
		if p.Obj == nil {
			ex.goPanicRuntime("nil pointer dereference")
		}
		g := p.Obj.Ghost.(*writerGhost)
		sl := a[1].(*Slice)
		if g.err == nil && len(g.buf.B) == 0 && sl.Len > bufioSize {
			// large write with an empty buffer goes straight to the underlying writer
			res := ex.invoke(fr, g.wr, "Write", sl).(Tuple)
			n := ex.concreteInt(fr, res[0], "Write n")
			err := res[1]
			if n < sl.Len && isNilIface(err) {
				err = ex.mkError("short write")
			}
			if !isNilIface(err) {
				g.err = err
				return Tuple{ex.i64(int64(n)), err}
			}
			return Tuple{ex.i64(int64(n)), &Iface{}}
		}
		s := &Str{}
		for i := 0; i < sl.Len; i++ {
			s.B = append(s.B, sl.Arr.V.(*ArrayV).E[sl.Off+i].(*Term))
		}
		return models["(*bufio.Writer).WriteString"](ex, fr, []Value{a[0], s})
	}
	m["(*bufio.Writer).Reset"] = func(ex *Exec, fr *frame, a []Value) Value {
		p := a[0].(*Ptr)
		if p.Obj == nil {
			ex.goPanicRuntime("nil pointer dereference")
		}
		p.Obj.Ghost = &writerGhost{wr: a[1].(*Iface), buf: &Str{}} // discards unflushed data and the sticky error
		return nil
	}
	m["(*bufio.Writer).Buffered"] = func(ex *Exec, fr *frame, a []Value) Value {
		return ex.i64(int64(len(a[0].(*Ptr).Obj.Ghost.(*writerGhost).buf.B)))
	}
	m["(*bufio.Writer).Available"] = func(ex *Exec, fr *frame, a []Value) Value {
		return ex.i64(int64(bufioSize - len(a[0].(*Ptr).Obj.Ghost.(*writerGhost).buf.B)))
	}
	m["(*bufio.Reader).Reset"] = func(ex *Exec, fr *frame, a []Value) Value {
		p := a[0].(*Ptr)
		if p.Obj == nil {
			ex.goPanicRuntime("nil pointer dereference")
		}
		p.Obj.Ghost = &readerGhost{rd: a[1].(*Iface), buf: &Str{}}
		return nil
	}
	m["(*bufio.Writer).WriteByte"] = func(ex *Exec, fr *frame, a []Value) Value {
		r := models["(*bufio.Writer).WriteString"](ex, fr, []Value{a[0], &Str{B: []*Term{a[1].(*Term)}}}).(Tuple)
		return r[1]
	}
	m["(*bufio.Writer).Flush"] = func(ex *Exec, fr *frame, a []Value) Value {
		p := a[0].(*Ptr)
		if p.Obj == nil {
			ex.goPanicRuntime("nil pointer dereference")
		}
		g := p.Obj.Ghost.(*writerGhost)
		if g.err != nil {
			return g.err
		}
		if len(g.buf.B) == 0 {
			return &Iface{}
		}
		arr := &ArrayV{E: make([]Value, len(g.buf.B))}
		for i, b := range g.buf.B {
			arr.E[i] = b
		}
		obj := ex.newObject(nil, arr, "bufio flush")
		sl := &Slice{Arr: obj, Len: len(arr.E), Cap: len(arr.E)}
		res := ex.invoke(fr, g.wr, "Write", sl).(Tuple)
		n := ex.concreteInt(fr, res[0], "Write n")
		err := res[1]
		if n < len(g.buf.B) && isNilIface(err) {
			err = ex.mkError("short write")
		}
		if !isNilIface(err) {
			if n > 0 && n < len(g.buf.B) {
				g.buf = &Str{B: g.buf.B[n:]}
			}
			g.err = err
			return err
		}
		g.buf = &Str{}
		return &Iface{}
	}
}

// ---- context -----------------------------------------------------------------

type ctxGhost struct {
	done   *ChanObj
	parent *ctxGhost
	err    Value
}

func (ex *Exec) ctxOf(v Value) *ctxGhost {
	if i, ok := v.(*Iface); ok {
		if i.T == nil {
			return nil
		}
		v = i.V
	}
	if p, ok := v.(*Ptr); ok && p.Obj != nil {
		if g, ok := p.Obj.Ghost.(*ctxGhost); ok {
			return g
		}
	}
	return nil
}

func init() {
	m := models
	bg := func(ex *Exec, fr *frame, a []Value) Value {
		t := ex.P.Pkgs["context"].Type("backgroundCtx")
		if t == nil {
			ex.unsupported(fr, "context.backgroundCtx type not found")
		}
		return &Iface{T: t.Type(), V: ex.zero(t.Type())}
	}
	m["context.Background"] = bg
	m["context.TODO"] = bg
	m["context.WithCancel"] = func(ex *Exec, fr *frame, a []Value) Value {
		ct := ex.P.Pkgs["context"].Type("cancelCtx").Type()
		ex.nextObj++
		g := &ctxGhost{done: &ChanObj{ID: ex.nextObj, Cap: 0, ET: types.NewStruct(nil, nil), Label: "ctx.Done"}, parent: ex.ctxOf(a[0])}
		if g.parent != nil && g.parent.done.Closed {
			g.done.Closed = true
		}
		obj := ex.newObject(ct, &Opaque{T: ct}, "cancelCtx")
		obj.Ghost = g
		ex.ctxChildren = append(ex.ctxChildren, g)
		ctx := &Iface{T: types.NewPointer(ct), V: &Ptr{Obj: obj}}
		cancel := &Func{Model: func(ex *Exec, fr *frame, args []Value) Value {
			ex.cancelCtx(g)
			return nil
		}}
		return Tuple{ctx, cancel}
	}
	done := func(ex *Exec, fr *frame, a []Value) Value {
		if g := ex.ctxOf(a[0]); g != nil {
			return &Chan{C: g.done}
		}
		return &Chan{}
	}
	m["(*context.cancelCtx).Done"] = done
	m["(context.backgroundCtx).Done"] = done
	m["(context.emptyCtx).Done"] = done
	errf := func(ex *Exec, fr *frame, a []Value) Value {
		if g := ex.ctxOf(a[0]); g != nil && g.done.Closed {
			return ex.mkError("context canceled")
		}
		return &Iface{}
	}
	m["(*context.cancelCtx).Err"] = errf
	m["(context.backgroundCtx).Err"] = errf
	m["(context.emptyCtx).Err"] = errf
}

// cancelCtx closes a context and every context derived from it.
func (ex *Exec) cancelCtx(g *ctxGhost) {
	g.done.Closed = true
	for _, c := range ex.ctxChildren {
		if !c.done.Closed {
			for p := c.parent; p != nil; p = p.parent {
				if p == g {
					c.done.Closed = true
					break
				}
			}
		}
	}
}

// ---- net/url, x/net/proxy, crypto/tls, time.Ticker -------------------------------

func init() {
	m := models
	m["net/url.Parse"] = func(ex *Exec, fr *frame, a []Value) Value {
		t := ex.P.Pkgs["net/url"].Type("URL").Type()
		obj := ex.newObject(t, ex.zero(t), "url.URL")
		obj.Ghost = a[0].(*Str)
		return Tuple{&Ptr{Obj: obj}, &Iface{}}
	}
	m["golang.org/x/net/proxy.RegisterDialerType"] = func(ex *Exec, fr *frame, a []Value) Value {
		scheme, ok := a[0].(*Str).Concrete()
		if !ok {
			ex.unsupported(fr, "symbolic proxy scheme")
		}
		ex.ghost["proxy:"+scheme] = a[1]
		return nil
	}
	m["golang.org/x/net/proxy.FromURL"] = func(ex *Exec, fr *frame, a []Value) Value {
		u := a[0].(*Ptr)
		raw := u.Obj.Ghost.(*Str)
		s, ok := raw.Concrete()
		if !ok {
			ex.unsupported(fr, "symbolic proxy URL")
		}
		scheme := s
		for i := 0; i < len(s); i++ {
			if s[i] == ':' {
				scheme = s[:i]
				break
			}
		}
		f, ok := ex.ghost["proxy:"+scheme]
		if !ok {
			return Tuple{&Iface{}, ex.mkError("proxy: unknown scheme: " + scheme)}
		}
		return ex.call(fr, f.(*Func), []Value{a[0], a[1]}, nil)
	}
	m["crypto/tls.Client"] = func(ex *Exec, fr *frame, a []Value) Value {
		t := ex.P.Pkgs["crypto/tls"].Type("Conn").Type()
		obj := ex.newObject(t, &Opaque{T: t}, "tls.Conn")
		obj.Ghost = a[0]
		ex.logEvent("tls-client", nil)
		return &Ptr{Obj: obj}
	}
	m["(*crypto/tls.Conn).Handshake"] = func(ex *Exec, fr *frame, a []Value) Value {
		// the in-memory peer never answers: the handshake fails
		return ex.mkError("tls: handshake failed (stub)")
	}
	m["(*net.Dialer).DialContext"] = func(ex *Exec, fr *frame, a []Value) Value {
		ex.logEvent("dial", a[3])
		return Tuple{&Iface{}, ex.mkError("dial stub: network unreachable")}
	}
	m["time.NewTicker"] = func(ex *Exec, fr *frame, a []Value) Value {
		d := a[0].(*Term)
		if !ex.X.Branch(ex.B.Bin(OSlt, ex.B.Const(64, 0), d)) {
			panic(&goPanic{Val: &Iface{T: types.Typ[types.String], V: ex.mkStr("non-positive interval for NewTicker")}, Kind: "explicit:non-positive interval for NewTicker", Where: ex.where(fr)})
		}
		tt := ex.P.Pkgs["time"].Type("Ticker").Type()
		timeT := ex.P.Pkgs["time"].Type("Time").Type()
		ex.nextObj++
		c := &ChanObj{ID: ex.nextObj, Cap: 1 << 20, ET: timeT, Label: "ticker.C"}
		for i := 0; i < ex.X.TickerTicks; i++ {
			c.Buf = append(c.Buf, ex.zero(timeT))
		}
		st := ex.zero(tt).(*StructV)
		nf := append([]Value(nil), st.F...)
		nf[0] = &Chan{C: c}
		obj := ex.newObject(tt, &StructV{F: nf}, "time.Ticker")
		ex.logEvent("ticker", d)
		return &Ptr{Obj: obj}
	}
	m["(*time.Ticker).Stop"] = func(ex *Exec, fr *frame, a []Value) Value {
		ex.logEvent("ticker-stop", nil)
		return nil
	}
}

// ---- sync.Map, sync.Once, sync/atomic, strings.Builder, time.Timer --------------

type syncMapGhost struct{ m *MapObj }

func (ex *Exec) syncMap(p *Ptr) *MapObj {
	if p.Obj == nil {
		ex.goPanicRuntime("nil pointer dereference")
	}
	k := "syncmap:" + ptrKey(p)
	if g, ok := ex.ghost[k]; ok {
		return g.(*MapObj)
	}
	ex.nextObj++
	m := &MapObj{ID: ex.nextObj}
	ex.ghost[k] = m
	return m
}

type builderGhost struct{ s *Str }

func (ex *Exec) builder(p *Ptr) *builderGhost {
	if p.Obj == nil {
		ex.goPanicRuntime("nil pointer dereference")
	}
	k := "builder:" + ptrKey(p)
	if g, ok := ex.ghost[k]; ok {
		return g.(*builderGhost)
	}
	g := &builderGhost{s: &Str{}}
	ex.ghost[k] = g
	return g
}

// encodeRune appends the UTF-8 encoding of a rune term (constant, or symbolic ASCII).
func (ex *Exec) encodeRune(fr *frame, r *Term) []*Term {
	if r.Op == OConst {
		var out []*Term
		for _, b := range []byte(string(rune(sx(r.Val, r.W)))) {
			out = append(out, ex.B.Const(8, uint64(b)))
		}
		return out
	}
	ex.requireASCIIRune(fr, r)
	return []*Term{ex.B.Zext(r, 8)}
}

func init() {
	m := models
	m["(*sync.Map).Load"] = func(ex *Exec, fr *frame, a []Value) Value {
		mo := ex.syncMap(a[0].(*Ptr))
		if i := ex.mapFind(mo, a[1]); i >= 0 {
			return Tuple{mo.Entries[i].V, ex.B.True}
		}
		return Tuple{&Iface{}, ex.B.False}
	}
	m["(*sync.Map).Store"] = func(ex *Exec, fr *frame, a []Value) Value {
		ex.mapUpdate(ex.syncMap(a[0].(*Ptr)), a[1], a[2])
		return nil
	}
	m["(*sync.Map).LoadOrStore"] = func(ex *Exec, fr *frame, a []Value) Value {
		mo := ex.syncMap(a[0].(*Ptr))
		if i := ex.mapFind(mo, a[1]); i >= 0 {
			return Tuple{mo.Entries[i].V, ex.B.True}
		}
		ex.mapUpdate(mo, a[1], a[2])
		return Tuple{a[2], ex.B.False}
	}
	m["(*sync.Map).Delete"] = func(ex *Exec, fr *frame, a []Value) Value {
		ex.mapDelete(ex.syncMap(a[0].(*Ptr)), a[1])
		return nil
	}
	m["(*sync.Map).LoadAndDelete"] = func(ex *Exec, fr *frame, a []Value) Value {
		mo := ex.syncMap(a[0].(*Ptr))
		if i := ex.mapFind(mo, a[1]); i >= 0 {
			v := mo.Entries[i].V
			ex.mapDelete(mo, a[1])
			return Tuple{v, ex.B.True}
		}
		return Tuple{&Iface{}, ex.B.False}
	}
	m["(*sync.Map).Range"] = func(ex *Exec, fr *frame, a []Value) Value {
		mo := ex.syncMap(a[0].(*Ptr))
		for _, e := range append([]MapEntry(nil), mo.Entries...) {
			r := ex.call(fr, a[1].(*Func), []Value{e.K, e.V}, nil).(*Term)
			if !ex.X.Branch(r) {
				break
			}
		}
		return nil
	}
	m["(*sync.Once).Do"] = func(ex *Exec, fr *frame, a []Value) Value {
		k := "once:" + ptrKey(a[0].(*Ptr))
		if _, done := ex.ghost[k]; done {
			return nil
		}
		ex.ghost[k] = true
		ex.call(fr, a[1].(*Func), nil, nil)
		return nil
	}
	// sync/atomic on int32/int64/uint32/uint64 (the baton makes every step atomic)
	for _, ty := range []string{"Int32", "Int64", "Uint32", "Uint64"} {
		ty := ty
		m["sync/atomic.Add"+ty] = func(ex *Exec, fr *frame, a []Value) Value {
			p := a[0].(*Ptr)
			ex.yieldPoint("lock")
			nv := ex.B.Bin(OAdd, ex.load(p).(*Term), a[1].(*Term))
			ex.store(p, nv)
			return nv
		}
		m["sync/atomic.Load"+ty] = func(ex *Exec, fr *frame, a []Value) Value {
			ex.yieldPoint("lock")
			return ex.load(a[0].(*Ptr))
		}
		m["sync/atomic.Store"+ty] = func(ex *Exec, fr *frame, a []Value) Value {
			ex.yieldPoint("lock")
			ex.store(a[0].(*Ptr), a[1])
			return nil
		}
		m["sync/atomic.CompareAndSwap"+ty] = func(ex *Exec, fr *frame, a []Value) Value {
			p := a[0].(*Ptr)
			ex.yieldPoint("lock")
			if ex.X.Branch(ex.B.Eq(ex.load(p).(*Term), a[1].(*Term))) {
				ex.store(p, a[2])
				return ex.B.True
			}
			return ex.B.False
		}
	}
	// sync/atomic.Value and the typed atomics (ghost cell per address; the baton makes every step atomic)
	m["(*sync/atomic.Value).Load"] = func(ex *Exec, fr *frame, a []Value) Value {
		ex.yieldPoint("lock")
		if v, ok := ex.ghost["atomicval:"+ptrKey(a[0].(*Ptr))]; ok {
			return v.(Value)
		}
		return &Iface{}
	}
	m["(*sync/atomic.Value).Store"] = func(ex *Exec, fr *frame, a []Value) Value {
		ex.yieldPoint("lock")
		ex.ghost["atomicval:"+ptrKey(a[0].(*Ptr))] = a[1]
		return nil
	}
	m["(*sync/atomic.Value).Swap"] = func(ex *Exec, fr *frame, a []Value) Value {
		ex.yieldPoint("lock")
		k := "atomicval:" + ptrKey(a[0].(*Ptr))
		var old Value = &Iface{}
		if v, ok := ex.ghost[k]; ok {
			old = v.(Value)
		}
		ex.ghost[k] = a[1]
		return old
	}
	for _, ty := range []struct {
		name string
		w    uint8
	}{{"Int32", 32}, {"Int64", 64}, {"Uint32", 32}, {"Uint64", 64}, {"Bool", 1}} {
		ty := ty
		cell := func(ex *Exec, p *Ptr) *Term {
			if v, ok := ex.ghost["atomicnum:"+ptrKey(p)]; ok {
				return v.(*Term)
			}
			if ty.w == 1 {
				return ex.B.False
			}
			return ex.B.Const(ty.w, 0)
		}
		m["(*sync/atomic."+ty.name+").Load"] = func(ex *Exec, fr *frame, a []Value) Value {
			ex.yieldPoint("lock")
			return cell(ex, a[0].(*Ptr))
		}
		m["(*sync/atomic."+ty.name+").Store"] = func(ex *Exec, fr *frame, a []Value) Value {
			ex.yieldPoint("lock")
			ex.ghost["atomicnum:"+ptrKey(a[0].(*Ptr))] = a[1].(*Term)
			return nil
		}
		m["(*sync/atomic."+ty.name+").Swap"] = func(ex *Exec, fr *frame, a []Value) Value {
			ex.yieldPoint("lock")
			old := cell(ex, a[0].(*Ptr))
			ex.ghost["atomicnum:"+ptrKey(a[0].(*Ptr))] = a[1].(*Term)
			return old
		}
		m["(*sync/atomic."+ty.name+").CompareAndSwap"] = func(ex *Exec, fr *frame, a []Value) Value {
			ex.yieldPoint("lock")
			if ex.X.Branch(ex.B.Eq(cell(ex, a[0].(*Ptr)), a[1].(*Term))) {
				ex.ghost["atomicnum:"+ptrKey(a[0].(*Ptr))] = a[2].(*Term)
				return ex.B.True
			}
			return ex.B.False
		}
		if ty.w > 1 {
			m["(*sync/atomic."+ty.name+").Add"] = func(ex *Exec, fr *frame, a []Value) Value {
				ex.yieldPoint("lock")
				nv := ex.B.Bin(OAdd, cell(ex, a[0].(*Ptr)), a[1].(*Term))
				ex.ghost["atomicnum:"+ptrKey(a[0].(*Ptr))] = nv
				return nv
			}
		}
	}
	// strings.Builder
	m["(*strings.Builder).WriteString"] = func(ex *Exec, fr *frame, a []Value) Value {
		g := ex.builder(a[0].(*Ptr))
		s := a[1].(*Str)
		g.s = &Str{B: append(append([]*Term(nil), g.s.B...), s.B...)}
		return Tuple{ex.i64(int64(len(s.B))), &Iface{}}
	}
	m["(*strings.Builder).WriteByte"] = func(ex *Exec, fr *frame, a []Value) Value {
		g := ex.builder(a[0].(*Ptr))
		g.s = &Str{B: append(append([]*Term(nil), g.s.B...), a[1].(*Term))}
		return &Iface{}
	}
	m["(*strings.Builder).WriteRune"] = func(ex *Exec, fr *frame, a []Value) Value {
		g := ex.builder(a[0].(*Ptr))
		enc := ex.encodeRune(fr, a[1].(*Term))
		g.s = &Str{B: append(append([]*Term(nil), g.s.B...), enc...)}
		return Tuple{ex.i64(int64(len(enc))), &Iface{}}
	}
	m["(*strings.Builder).Write"] = func(ex *Exec, fr *frame, a []Value) Value {
		g := ex.builder(a[0].(*Ptr))
		sl := a[1].(*Slice)
		nb := append([]*Term(nil), g.s.B...)
		for i := 0; i < sl.Len; i++ {
			nb = append(nb, sl.Arr.V.(*ArrayV).E[sl.Off+i].(*Term))
		}
		g.s = &Str{B: nb}
		return Tuple{ex.i64(int64(sl.Len)), &Iface{}}
	}
	m["(*strings.Builder).String"] = func(ex *Exec, fr *frame, a []Value) Value { return ex.builder(a[0].(*Ptr)).s }
	m["(*strings.Builder).Len"] = func(ex *Exec, fr *frame, a []Value) Value {
		return ex.i64(int64(len(ex.builder(a[0].(*Ptr)).s.B)))
	}
	m["(*strings.Builder).Grow"] = func(ex *Exec, fr *frame, a []Value) Value { return nil }
	m["(*strings.Builder).Reset"] = func(ex *Exec, fr *frame, a []Value) Value {
		ex.builder(a[0].(*Ptr)).s = &Str{}
		return nil
	}
	// time.Timer: the model clock may run arbitrarily fast, so a timer can fire
	// as soon as it is armed (handlers may take arbitrarily long in real time).
	m["time.NewTimer"] = func(ex *Exec, fr *frame, a []Value) Value {
		tt := ex.P.Pkgs["time"].Type("Timer").Type()
		timeT := ex.P.Pkgs["time"].Type("Time").Type()
		ex.nextObj++
		c := &ChanObj{ID: ex.nextObj, Cap: 1, ET: timeT, Label: "timer.C"}
		c.timerD, c.timerArm = a[0].(*Term), ex.clock()
		if ex.lazyTimers {
			ex.pendingTimers = append(ex.pendingTimers, c)
		} else {
			c.Buf = []Value{ex.zero(timeT)}
		}
		st := ex.zero(tt).(*StructV)
		nf := append([]Value(nil), st.F...)
		nf[0] = &Chan{C: c}
		obj := ex.newObject(tt, &StructV{F: nf}, "time.Timer")
		ex.logEvent("timer", a[0])
		return &Ptr{Obj: obj}
	}
	m["(*time.Timer).Stop"] = func(ex *Exec, fr *frame, a []Value) Value {
		t := ex.load(a[0].(*Ptr)).(*StructV)
		if c, ok := t.F[0].(*Chan); ok && c.C != nil {
			if ex.disarmTimer(c.C) {
				return ex.B.True
			}
			if len(c.C.Buf) > 0 && !ex.lazyTimers {
				c.C.Buf = nil
				return ex.B.True
			}
		}
		return ex.B.False
	}
	m["(*time.Timer).Reset"] = func(ex *Exec, fr *frame, a []Value) Value {
		t := ex.load(a[0].(*Ptr)).(*StructV)
		if c, ok := t.F[0].(*Chan); ok && c.C != nil {
			c.C.timerD, c.C.timerArm = a[1].(*Term), ex.clock()
			if ex.lazyTimers {
				was := ex.disarmTimer(c.C)
				ex.pendingTimers = append(ex.pendingTimers, c.C)
				return ex.B.Bool(was)
			}
			was := len(c.C.Buf) > 0
			c.C.Buf = []Value{ex.zero(c.C.ET)}
			return ex.B.Bool(was)
		}
		return ex.B.False
	}
}

// ---- sync.Pool ------------------------------------------------------------------
// Get hands back the most recently Put object when there is one (the real pool may
// also drop objects; recycling is the behaviour that can matter to a caller), else New().

type poolGhost struct{ items []Value }

func (ex *Exec) pool(p *Ptr) *poolGhost {
	if p.Obj == nil {
		ex.goPanicRuntime("nil pointer dereference")
	}
	k := "pool:" + ptrKey(p)
	if g, ok := ex.ghost[k]; ok {
		return g.(*poolGhost)
	}
	g := &poolGhost{}
	ex.ghost[k] = g
	return g
}

func init() {
	models["(*sync.Pool).Get"] = func(ex *Exec, fr *frame, a []Value) Value {
		p := a[0].(*Ptr)
		g := ex.pool(p)
		ex.yieldPoint("lock")
		if n := len(g.items); n > 0 {
			v := g.items[n-1]
			g.items = g.items[:n-1]
			return v
		}
		st := ex.load(p).(*StructV)
		newF := st.F[len(st.F)-1] // New func() any is the last field
		if f, ok := newF.(*Func); ok && f != nil && f.Fn != nil {
			return ex.call(fr, f, nil, nil)
		}
		return &Iface{}
	}
	models["(*sync.Pool).Put"] = func(ex *Exec, fr *frame, a []Value) Value {
		g := ex.pool(a[0].(*Ptr))
		ex.yieldPoint("lock")
		if i, ok := a[1].(*Iface); ok && i.T == nil {
			return nil
		}
		g.items = append(g.items, a[1])
		return nil
	}
}

// ---- bufio.Reader.ReadSlice / ReadBytes ------------------------------------------
func init() {
	bytesOf := func(ex *Exec, s []*Term, label string) Value {
		arr := &ArrayV{E: make([]Value, len(s))}
		for i, b := range s {
			arr.E[i] = b
		}
		obj := ex.newObject(nil, arr, label)
		return &Slice{Arr: obj, Len: len(s), Cap: len(s)}
	}
	// ReadSlice: the line must fit the 4096-byte buffer, otherwise the full buffer comes back with ErrBufferFull.
	models["(*bufio.Reader).ReadSlice"] = func(ex *Exec, fr *frame, a []Value) Value {
		p := a[0].(*Ptr)
		if p.Obj == nil {
			ex.goPanicRuntime("nil pointer dereference")
		}
		g := p.Obj.Ghost.(*readerGhost)
		delim := &Str{B: []*Term{a[1].(*Term)}}
		for tries := 0; ; tries++ {
			win := g.buf
			if len(win.B) > bufioSize {
				win = &Str{B: g.buf.B[:bufioSize]}
			}
			if i := ex.indexFork(win, delim, false); i >= 0 {
				line := g.buf.B[:i+1]
				g.buf = &Str{B: g.buf.B[i+1:]}
				return Tuple{bytesOf(ex, line, "ReadSlice"), &Iface{}}
			}
			if len(g.buf.B) >= bufioSize {
				line := g.buf.B[:bufioSize]
				g.buf = &Str{B: g.buf.B[bufioSize:]}
				return Tuple{bytesOf(ex, line, "ReadSlice"), ex.mkError("bufio: buffer full")}
			}
			if g.err != nil {
				line := g.buf.B
				g.buf = &Str{}
				err := g.err
				g.err = nil
				return Tuple{bytesOf(ex, line, "ReadSlice"), err}
			}
			if tries > 100 {
				return Tuple{&Slice{Nil: true}, ex.mkError("multiple Read calls return no data or error")}
			}
			sl := ex.makeSlice(types.Typ[types.Uint8], bufioSize, bufioSize)
			res := ex.invoke(fr, g.rd, "Read", sl).(Tuple)
			n := ex.concreteInt(fr, res[0], "Read n")
			arr := sl.Arr.V.(*ArrayV)
			nb := append([]*Term(nil), g.buf.B...)
			for i := 0; i < n; i++ {
				nb = append(nb, arr.E[i].(*Term))
			}
			g.buf = &Str{B: nb}
			if !isNilIface(res[1]) {
				g.err = res[1]
			}
		}
	}
	models["(*bufio.Reader).ReadBytes"] = func(ex *Exec, fr *frame, a []Value) Value {
		r := models["(*bufio.Reader).ReadString"](ex, fr, a).(Tuple)
		return Tuple{bytesOf(ex, r[0].(*Str).B, "ReadBytes"), r[1]}
	}
}
