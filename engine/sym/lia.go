package sym

import (
	"fmt"
	"strings"
	"sync"
)

// Linear-integer encoding of 64-bit bit-vector queries.
//
// A query whose terms use only 64-bit add / sub / neg / multiply-by-constant /
// signed-divide-by-positive-constant / ite / = / signed comparisons (plus
// Boolean structure) is translated to mathematical integers. Bit-vector and
// integer semantics coincide exactly as long as no arithmetic node leaves
// [-2^63, 2^63). That is established constraint by constraint, in the order
// of the list: constraint k may be read over the integers if, under the
// (already integer-equivalent) constraints before it, none of its arithmetic
// nodes can overflow - one extra query per constraint, cached. If a node can
// overflow, or a term is outside the fragment, the caller falls back to the
// bit-vector encoding.

const (
	liaMin = "(- 9223372036854775808)"
	liaMax = "9223372036854775807"
)

type liaPrinter struct {
	sb    strings.Builder
	done  map[int]bool
	arith map[int][]string // per top-level constraint: names of arithmetic nodes
	cur   *[]string
	ok    bool
	why   string
}

var LIAFallbacks = map[string]int{}
var liaMu sync.Mutex

func noteFallback(why string) {
	liaMu.Lock()
	LIAFallbacks[why]++
	liaMu.Unlock()
}

func liaConst(t *Term) string {
	if t.W == 0 {
		if t.Val == 1 {
			return "true"
		}
		return "false"
	}
	v := sx(t.Val, t.W)
	if v < 0 {
		return fmt.Sprintf("(- %d)", uint64(-v))
	}
	return fmt.Sprintf("%d", v)
}

func (p *liaPrinter) ref(t *Term) string {
	switch t.Op {
	case OConst:
		return liaConst(t)
	case OVar:
		return varSMT(t)
	}
	return fmt.Sprintf("i%d", t.ID)
}

func (p *liaPrinter) define(t *Term) {
	if t.Op == OConst || p.done[t.ID] || !p.ok {
		if p.done[t.ID] && p.cur != nil && t.W == 64 && t.Op != OVar && t.Op != OConst {
			// shared arithmetic node: already known safe under an earlier constraint
		}
		return
	}
	if t.W != 0 && t.W != 64 {
		p.ok = false
		p.why = fmt.Sprintf("width %d", t.W)
		return
	}
	for _, a := range t.Args {
		p.define(a)
		if !p.ok {
			return
		}
	}
	p.done[t.ID] = true
	if t.Op == OVar {
		if t.W == 0 {
			fmt.Fprintf(&p.sb, "(declare-const %s Bool)\n", varSMT(t))
		} else {
			fmt.Fprintf(&p.sb, "(declare-const %s Int)\n(assert (and (<= %s %s) (<= %s %s)))\n", varSMT(t), liaMin, varSMT(t), varSMT(t), liaMax)
		}
		return
	}
	sort := "Int"
	if t.W == 0 {
		sort = "Bool"
	}
	var body string
	r := func(i int) string { return p.ref(t.Args[i]) }
	isArith := false
	switch t.Op {
	case ONot:
		body = "(not " + r(0) + ")"
	case OAnd, OOr:
		parts := make([]string, len(t.Args))
		for i := range t.Args {
			parts[i] = r(i)
		}
		body = "(" + map[Op]string{OAnd: "and", OOr: "or"}[t.Op] + " " + strings.Join(parts, " ") + ")"
	case OEq:
		body = "(= " + r(0) + " " + r(1) + ")"
	case OIte:
		body = "(ite " + r(0) + " " + r(1) + " " + r(2) + ")"
	case OSlt:
		body = "(< " + r(0) + " " + r(1) + ")"
	case OSle:
		body = "(<= " + r(0) + " " + r(1) + ")"
	case OAdd:
		body, isArith = "(+ "+r(0)+" "+r(1)+")", true
	case OSub:
		body, isArith = "(- "+r(0)+" "+r(1)+")", true
	case ONeg:
		body, isArith = "(- "+r(0)+")", true
	case OMul:
		if t.Args[0].Op != OConst && t.Args[1].Op != OConst {
			p.ok = false
			return
		}
		body, isArith = "(* "+r(0)+" "+r(1)+")", true
	case OSDiv:
		d := t.Args[1]
		if d.Op != OConst || sx(d.Val, d.W) <= 0 {
			p.ok = false
			return
		}
		// Go / bvsdiv truncate toward zero; SMT-LIB div floors for a positive divisor
		x := r(0)
		body = fmt.Sprintf("(ite (>= %s 0) (div %s %s) (- (div (- %s) %s)))", x, x, r(1), x, r(1))
	default:
		p.ok = false
		p.why = fmt.Sprintf("op %d (%s) width %d", t.Op, opSMT[t.Op], t.W)
		return
	}
	fmt.Fprintf(&p.sb, "(define-fun i%d () %s %s)\n", t.ID, sort, body)
	if isArith && p.cur != nil {
		*p.cur = append(*p.cur, fmt.Sprintf("i%d", t.ID))
	}
}

// CheckLIA decides the conjunction over the integers when that is exact.
// ok=false means "not applicable, use the bit-vector encoding".
func (s *Solver) CheckLIA(asserts []*Term, want []*Term, safe map[string]bool) (res SatResult, model map[int]uint64, ok bool) {
	p := &liaPrinter{done: map[int]bool{}, ok: true}
	var prefixKey strings.Builder
	var asserted []string
	for _, a := range asserts {
		var nodes []string
		p.cur = &nodes
		p.define(a)
		if !p.ok {
			noteFallback(p.why)
			return Unknown, nil, false
		}
		p.cur = nil
		key := prefixKey.String() + fmt.Sprintf("|%d", a.ID)
		if len(nodes) > 0 && !safe[key] {
			// can any arithmetic node of this constraint overflow under the earlier ones?
			var ov []string
			for _, n := range nodes {
				ov = append(ov, fmt.Sprintf("(< %s %s) (> %s %s)", n, liaMin, n, liaMax))
			}
			body := p.sb.String()
			for _, x := range asserted {
				body += "(assert " + x + ")\n"
			}
			body += "(assert (or " + strings.Join(ov, " ") + "))\n"
			r, _ := s.CheckText(body, nil, nil)
			if r != Unsat {
				noteFallback("possible overflow: " + r.String())
				return Unknown, nil, false
			}
			safe[key] = true
		}
		fmt.Fprintf(&prefixKey, "%d,", a.ID)
		asserted = append(asserted, p.ref(a))
	}
	var wantRefs []string
	for _, w := range want {
		p.define(w)
		if !p.ok {
			return Unknown, nil, false
		}
		wantRefs = append(wantRefs, p.ref(w))
	}
	body := p.sb.String()
	for _, x := range asserted {
		body += "(assert " + x + ")\n"
	}
	r, m := s.CheckText(body, want, wantRefs)
	return r, m, true
}
