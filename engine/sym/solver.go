package sym

import (
	"bufio"
	"fmt"
	"io"
	"os"
	"os/exec"
	"strconv"
	"strings"
	"sync/atomic"
	"time"
)

// Result of a solver query.
type SatResult int

const (
	Unsat SatResult = iota
	Sat
	Unknown
)

func (r SatResult) String() string { return [...]string{"unsat", "sat", "unknown"}[r] }

// SolverStats is shared across solvers of one check (atomic counters).
type SolverStats struct {
	Queries, SatN, UnsatN, UnknownN, Errors int64
	CrossChecked, Disagreements             int64
	LIA                                     int64 // queries decided in the exact linear-integer encoding
	SolverNS                                int64
}

// Solver is one long-lived SMT solver process spoken to over pipes.
type Solver struct {
	Kind    string
	cmd     *exec.Cmd
	in      io.WriteCloser
	out     *bufio.Reader
	Timeout time.Duration
	Stats   *SolverStats
	dead    bool
	Log     io.Writer // optional transcript
	liaSafe map[string]bool
}

func solverArgv(kind string) []string {
	switch kind {
	case "z3":
		return []string{"/usr/bin/z3", "-in", "-smt2"}
	case "z3-new":
		return []string{"z3-new", "-in", "-smt2"}
	case "cvc5":
		return []string{"cvc5", "--produce-models", "--lang=smt2"}
	case "z3-lia":
		return []string{"z3-new", "-in", "-smt2"}
	case "cvc5-int":
		return []string{"cvc5", "--produce-models", "--lang=smt2", "--solve-bv-as-int=sum"}
	}
	panic("unknown solver " + kind)
}

func StartSolver(kind string, timeout time.Duration, stats *SolverStats) (*Solver, error) {
	s := &Solver{Kind: kind, Timeout: timeout, Stats: stats}
	if err := s.start(); err != nil {
		return nil, err
	}
	return s, nil
}

func (s *Solver) start() error {
	argv := solverArgv(s.Kind)
	s.cmd = exec.Command(argv[0], argv[1:]...)
	var err error
	if s.in, err = s.cmd.StdinPipe(); err != nil {
		return err
	}
	op, err := s.cmd.StdoutPipe()
	if err != nil {
		return err
	}
	s.cmd.Stderr = nil
	s.out = bufio.NewReaderSize(op, 1<<16)
	if err := s.cmd.Start(); err != nil {
		return err
	}
	s.dead = false
	if p := os.Getenv("VERIF_SMTLOG"); p != "" && s.Log == nil {
		f, _ := os.OpenFile(fmt.Sprintf("%s.%s.%d", p, s.Kind, s.cmd.Process.Pid), os.O_CREATE|os.O_WRONLY|os.O_TRUNC, 0o644)
		s.Log = f
	}
	return nil
}

func (s *Solver) Close() {
	if s.cmd != nil && s.cmd.Process != nil {
		s.in.Close()
		s.cmd.Process.Kill()
		s.cmd.Wait()
	}
	s.dead = true
}

func (s *Solver) restart() {
	s.Close()
	s.start()
}

// readSexp reads one line (check-sat answer) or a balanced s-expression.
func (s *Solver) readReply() (string, error) {
	var sb strings.Builder
	depth := 0
	started := false
	for {
		line, err := s.out.ReadString('\n')
		if err != nil {
			return sb.String(), err
		}
		inq := false
		for _, c := range line {
			switch {
			case c == '|':
				inq = !inq
			case inq:
			case c == '(':
				depth++
				started = true
			case c == ')':
				depth--
			}
		}
		sb.WriteString(line)
		if strings.TrimSpace(line) == "" && !started {
			continue
		}
		if depth <= 0 {
			return strings.TrimSpace(sb.String()), nil
		}
	}
}

type reply struct {
	s   string
	err error
}

func (s *Solver) readReplyTimeout(d time.Duration) (string, error) {
	ch := make(chan reply, 1)
	go func() {
		r, err := s.readReply()
		ch <- reply{r, err}
	}()
	select {
	case r := <-ch:
		return r.s, r.err
	case <-time.After(d):
		s.cmd.Process.Kill()
		<-ch
		return "", fmt.Errorf("timeout")
	}
}

// Check decides the conjunction of asserts. If want is non-empty and the
// answer is sat, the values of those terms are returned (keyed by term ID).
func (s *Solver) Check(asserts []*Term, want []*Term) (SatResult, map[int]uint64) {
	if s.Kind == "z3-lia" {
		if s.liaSafe == nil {
			s.liaSafe = map[string]bool{}
		}
		if r, m, ok := s.CheckLIA(asserts, want, s.liaSafe); ok {
			atomic.AddInt64(&s.Stats.LIA, 1)
			return r, m
		}
	}
	p := NewSMTPrinter()
	for _, a := range asserts {
		p.Assert(a)
	}
	var wantRefs []string
	for _, w := range want {
		wantRefs = append(wantRefs, p.Define(w))
	}
	return s.CheckText(p.String(), want, wantRefs)
}

func (s *Solver) CheckText(body string, want []*Term, wantRefs []string) (SatResult, map[int]uint64) {
	if s.dead {
		s.start()
	}
	t0 := time.Now()
	defer func() {
		atomic.AddInt64(&s.Stats.SolverNS, int64(time.Since(t0)))
	}()
	atomic.AddInt64(&s.Stats.Queries, 1)
	var sb strings.Builder
	sb.WriteString("(set-option :produce-models true)\n")
	if strings.HasPrefix(s.Kind, "cvc5") {
		fmt.Fprintf(&sb, "(set-option :tlimit-per %d)\n(set-logic ALL)\n", s.Timeout.Milliseconds())
	} else {
		fmt.Fprintf(&sb, "(set-option :timeout %d)\n", s.Timeout.Milliseconds())
	}
	sb.WriteString(body)
	sb.WriteString("(check-sat)\n")
	if s.Log != nil {
		io.WriteString(s.Log, sb.String())
	}
	if _, err := io.WriteString(s.in, sb.String()); err != nil {
		s.restart()
		atomic.AddInt64(&s.Stats.Errors, 1)
		return Unknown, nil
	}
	ans, err := s.readReplyTimeout(s.Timeout + 5*time.Second)
	if s.Log != nil {
		fmt.Fprintf(s.Log, "; -> %s (%v) %.3fs\n", ans, err, time.Since(t0).Seconds())
	}
	if err != nil {
		s.restart()
		atomic.AddInt64(&s.Stats.UnknownN, 1)
		return Unknown, nil
	}
	res := Unknown
	switch {
	case strings.HasPrefix(ans, "unsat"):
		res = Unsat
	case strings.HasPrefix(ans, "sat"):
		res = Sat
	case strings.Contains(ans, "(error"):
		atomic.AddInt64(&s.Stats.Errors, 1)
		// drain possible further answers by restarting
		s.restart()
		return Unknown, nil
	}
	var model map[int]uint64
	if res == Sat && len(want) > 0 {
		io.WriteString(s.in, "(get-value ("+strings.Join(wantRefs, " ")+"))\n")
		mv, err := s.readReplyTimeout(s.Timeout + 5*time.Second)
		if err != nil || strings.Contains(mv, "(error") {
			s.restart()
			atomic.AddInt64(&s.Stats.Errors, 1)
			return Unknown, nil
		}
		vals := parseValues(mv)
		if len(vals) != len(want) {
			atomic.AddInt64(&s.Stats.Errors, 1)
			s.restart()
			return Unknown, nil
		}
		model = map[int]uint64{}
		for i, w := range want {
			model[w.ID] = vals[i]
		}
	}
	io.WriteString(s.in, "(reset)\n")
	switch res {
	case Sat:
		atomic.AddInt64(&s.Stats.SatN, 1)
	case Unsat:
		atomic.AddInt64(&s.Stats.UnsatN, 1)
	default:
		atomic.AddInt64(&s.Stats.UnknownN, 1)
	}
	return res, model
}

// parseValues extracts the value of each (name value) pair of a get-value reply, in order.
func parseValues(s string) []uint64 {
	toks := tokenize(s)
	// structure: ( ( name value ) ( name value ) ... ) where value may be
	// #x.., #b.., true, false, (_ bvN w)
	var out []uint64
	i := 0
	if i < len(toks) && toks[i] == "(" {
		i++
	}
	for i < len(toks) && toks[i] == "(" {
		i++ // (
		// name: atom or nested expr
		if toks[i] == "(" {
			d := 0
			for {
				if toks[i] == "(" {
					d++
				} else if toks[i] == ")" {
					d--
				}
				i++
				if d == 0 {
					break
				}
			}
		} else {
			i++
		}
		// value
		var v uint64
		if toks[i] == "(" {
			// (_ bvN w) or (- N)
			if i+2 < len(toks) && toks[i+1] == "_" && strings.HasPrefix(toks[i+2], "bv") {
				v, _ = strconv.ParseUint(toks[i+2][2:], 10, 64)
			} else if i+2 < len(toks) && toks[i+1] == "-" {
				if n, err := strconv.ParseUint(toks[i+2], 10, 64); err == nil {
					v = uint64(-int64(n))
				}
			}
			d := 0
			for {
				if toks[i] == "(" {
					d++
				} else if toks[i] == ")" {
					d--
				}
				i++
				if d == 0 {
					break
				}
			}
		} else {
			t := toks[i]
			switch {
			case t == "true":
				v = 1
			case t == "false":
				v = 0
			case strings.HasPrefix(t, "#x"):
				v, _ = strconv.ParseUint(t[2:], 16, 64)
			case strings.HasPrefix(t, "#b"):
				v, _ = strconv.ParseUint(t[2:], 2, 64)
			default:
				if n, err := strconv.ParseInt(t, 10, 64); err == nil {
					v = uint64(n)
				}
			}
			i++
		}
		out = append(out, v)
		if i < len(toks) && toks[i] == ")" {
			i++
		}
	}
	return out
}

func tokenize(s string) []string {
	var toks []string
	i := 0
	for i < len(s) {
		c := s[i]
		switch {
		case c == '(' || c == ')':
			toks = append(toks, string(c))
			i++
		case c == ' ' || c == '\n' || c == '\t' || c == '\r':
			i++
		case c == '|':
			j := i + 1
			for j < len(s) && s[j] != '|' {
				j++
			}
			toks = append(toks, s[i:j+1])
			i = j + 1
		default:
			j := i
			for j < len(s) && !strings.ContainsRune("() \n\t\r", rune(s[j])) {
				j++
			}
			toks = append(toks, s[i:j])
			i = j
		}
	}
	return toks
}
