package sym

import (
	"fmt"
	"go/constant"
	"go/token"
	"go/types"
	"os"
	"strings"

	"golang.org/x/tools/go/ssa"
)

// goPanic is a Go-level panic travelling up the interpreted stack.
type goPanic struct {
	Val     Value  // the panic value (an *Iface)
	Kind    string // "runtime:index", "runtime:nil", "explicit", …
	Where   string // function:line of the raising instruction
	Msg     string
	Aborted bool
}

// abortPath ends the current path without a verdict.
type abortPath struct {
	Kind   string // "infeasible", "unsupported", "unwind", "blocked", "assume"
	Reason string
	HangIn string // loop bound exceeded inside this function of the code under test ("" otherwise)
}

type deferred struct {
	fn   *Func
	args []Value
	call *ssa.CallCommon // for invoke-mode defers
	recv Value
	site ssa.Instruction
}

// mergeEdge is one way of entering a join block in an if-converted region.
type mergeEdge struct {
	pred *ssa.BasicBlock
	cond *Term
}

type frame struct {
	fn        *ssa.Function
	caller    *frame
	env       map[ssa.Value]Value
	block     *ssa.BasicBlock
	prev      *ssa.BasicBlock
	defers    []deferred
	result    Value
	panicking bool
	panic     *goPanic
	visits    map[int]int
	cur       ssa.Instruction
	// if-conversion state: when set, phis in block read ite(mcond, fromT, fromF)
	merge        []mergeEdge // pending if-conversion for the next block
	cmerge       []mergeEdge // active for the block being executed
	goroutineTop bool
}

// Exec executes one path of one harness.
type Exec struct {
	P             *Program
	B             *Builder
	X             *Explorer
	globals       map[*ssa.Global]*Object
	nextObj       int
	depth         int
	steps         int
	sch           *schedState
	ghost         map[string]interface{}
	events        []string // notable events on this path (recovered panics…)
	gevents       []ghostEvent
	fresh         map[string]int
	clockFloor    *Term
	ctxChildren   []*ctxGhost
	spec          int // >0 while speculatively evaluating a pure region
	watchObj      map[*Object]*mutexGhost
	watchMap      map[*MapObj]*mutexGhost
	watchOn       bool
	lazyTimers    bool
	pendingTimers []*ChanObj
	watchReads    bool // also monitor reads of fields that are written somewhere (vSetOpt "watchReads")
	// hooks
	fnNames map[*ssa.Function]string
}

const maxDepth = 150

var traceCalls = os.Getenv("VERIF_TRACE") != ""

func (ex *Exec) where(fr *frame) string {
	if fr == nil {
		return "?"
	}
	pos := token.NoPos
	if fr.cur != nil {
		pos = fr.cur.Pos()
	}
	if pos == token.NoPos {
		// search backwards for a positioned instruction in the block
		if fr.cur != nil {
			b := fr.cur.Block()
			for _, in := range b.Instrs {
				if in.Pos() != token.NoPos {
					pos = in.Pos()
				}
				if in == fr.cur {
					break
				}
			}
		}
	}
	p := ex.P.Fset.Position(pos)
	file := p.Filename
	if i := strings.LastIndex(file, "/"); i >= 0 {
		file = file[i+1:]
	}
	return fmt.Sprintf("%s@%s:%d", fr.fn.String(), file, p.Line)
}

func (ex *Exec) abort(kind, reason string) {
	if ex.spec > 0 {
		panic(&specAbort{})
	}
	panic(&abortPath{Kind: kind, Reason: reason})
}

// isHarnessFn: the function comes from a harness overlay file (zz_verif_*.go).
func (ex *Exec) isHarnessFn(fn *ssa.Function) bool {
	for f := fn; f != nil; f = f.Parent() {
		if f.Pos().IsValid() {
			return strings.Contains(ex.P.Fset.Position(f.Pos()).Filename, "zz_verif_")
		}
	}
	return false
}

func (ex *Exec) unsupported(fr *frame, what string) {
	ex.abort("unsupported", what+" at "+ex.where(fr))
}

func (ex *Exec) goPanicRuntime(msg string) {
	if ex.spec > 0 {
		panic(&specAbort{})
	}
	kind := "runtime:" + msg
	w := ex.where(ex.X.curFrame)
	panic(&goPanic{Val: &Iface{T: ex.P.runtimeErrorType(), V: ex.mkStr("runtime error: " + msg)}, Kind: kind, Where: w, Msg: msg})
}

// call invokes a function value with arguments.
func (ex *Exec) call(caller *frame, f *Func, args []Value, site ssa.Instruction) Value {
	if f.Builtin != nil {
		return ex.callBuiltin(caller, f.Builtin, args, site)
	}
	if f.Model != nil {
		return f.Model(ex, caller, args)
	}
	if f.Fn == nil {
		ex.goPanicRuntime("nil pointer dereference (nil func call)")
	}
	fn := f.Fn
	name := fn.String()
	if m, ok := models[name]; ok {
		return m(ex, caller, args)
	}
	if fn.Name() == "init" && fn.Synthetic == "package initializer" && !ex.P.initRuns(fn) {
		return nil
	}
	if in, ok := intrinsics[fn.Name()]; ok && fn.Pkg != nil && ex.P.isHarnessPkg(fn.Pkg) {
		return in(ex, caller, args)
	}
	if fn.Blocks == nil {
		ex.unsupported(caller, "external function "+name)
	}
	if !ex.P.executable(fn) {
		ex.unsupported(caller, "no model for "+name)
	}
	return ex.callSSA(caller, fn, args, f.Env)
}

func (ex *Exec) callSSA(caller *frame, fn *ssa.Function, args []Value, env []Value) Value {
	g := ex.sch.cur
	g.depth++
	if g.depth > maxDepth {
		ex.abort("unwind", "call depth exceeded in "+fn.String())
	}
	defer func() { g.depth-- }()
	ex.X.noteFunc(fn)
	if traceCalls && ex.X.Paths < 2 {
		fmt.Fprintf(os.Stderr, "TRACE p%d g%d %*s%s\n", ex.X.Paths, ex.sch.cur.id, g.depth, "", fn.String())
	}
	fr := &frame{fn: fn, caller: caller, env: make(map[ssa.Value]Value, 16), visits: map[int]int{}}
	if len(args) != len(fn.Params) {
		panic(fmt.Sprintf("arity mismatch calling %s: %d vs %d", fn, len(args), len(fn.Params)))
	}
	for i, p := range fn.Params {
		fr.env[p] = args[i]
	}
	for i, fv := range fn.FreeVars {
		fr.env[fv] = env[i]
	}
	fr.block = fn.Blocks[0]
	saved := ex.X.curFrame
	defer func() { ex.X.curFrame = saved }()
	for fr.block != nil {
		ex.runFrame(fr)
	}
	return fr.result
}

func (ex *Exec) runFrame(fr *frame) {
	defer func() {
		if fr.block == nil {
			return // normal return
		}
		r := recover()
		gp, ok := r.(*goPanic)
		if !ok {
			panic(r)
		}
		fr.panicking = true
		fr.panic = gp
		ex.runDefers(fr)
		if fr.panicking {
			panic(fr.panic)
		}
		// recovered
		fr.block = fr.fn.Recover
		fr.prev = nil
		if fr.block == nil {
			fr.result = ex.zeroResults(fr.fn)
		}
	}()
	for {
		ex.X.curFrame = fr
		b := fr.block
		fr.cmerge = fr.merge
		fr.merge = nil
		fr.visits[b.Index]++
		if fr.visits[b.Index] > ex.X.MaxLoop {
			if ex.spec == 0 && !ex.isHarnessFn(fr.fn) {
				// a loop of the code under test that does not terminate within the bound on this
				// path: a candidate hang, confirmed or refuted by running the input natively
				panic(&abortPath{Kind: "unwind", Reason: fmt.Sprintf("loop bound %d exceeded in %s block %d", ex.X.MaxLoop, fr.fn, b.Index), HangIn: fr.fn.String()})
			}
			ex.abort("unwind", fmt.Sprintf("loop bound %d exceeded in %s block %d", ex.X.MaxLoop, fr.fn, b.Index))
		}
		var next *ssa.BasicBlock
		done := false
		for _, instr := range b.Instrs {
			fr.cur = instr
			ex.steps++
			if ex.steps > ex.X.MaxSteps {
				ex.abort("unwind", "step budget exceeded")
			}
			switch in := instr.(type) {
			case *ssa.Return:
				switch len(in.Results) {
				case 0:
					fr.result = nil
				case 1:
					fr.result = ex.get(fr, in.Results[0])
				default:
					tp := make(Tuple, len(in.Results))
					for i, r := range in.Results {
						tp[i] = ex.get(fr, r)
					}
					fr.result = tp
				}
				fr.block = nil
				return
			case *ssa.Jump:
				next = b.Succs[0]
			case *ssa.If:
				next = ex.doIf(fr, in)
			case *ssa.Panic:
				v := ex.get(fr, in.X)
				iv, _ := v.(*Iface)
				panic(&goPanic{Val: iv, Kind: "explicit", Where: ex.where(fr), Msg: describe(v)})
			default:
				ex.visit(fr, instr)
			}
			ex.X.curFrame = fr
			if next != nil || done {
				break
			}
		}
		if next == nil {
			panic("block fell through: " + fr.fn.String())
		}
		fr.prev = b
		fr.block = next
	}
}

func (ex *Exec) zeroResults(fn *ssa.Function) Value {
	res := fn.Signature.Results()
	switch res.Len() {
	case 0:
		return nil
	case 1:
		return ex.zero(res.At(0).Type())
	}
	return ex.zero(res)
}

func (ex *Exec) runDefers(fr *frame) {
	for len(fr.defers) > 0 {
		d := fr.defers[len(fr.defers)-1]
		fr.defers = fr.defers[:len(fr.defers)-1]
		ex.call(fr, d.fn, d.args, d.site)
	}
}

// specAbort ends a speculative (if-conversion) evaluation.
type specAbort struct{}

var pureModels = map[string]bool{
	"strings.HasPrefix": true, "strings.HasSuffix": true, "strings.Contains": true,
	"strings.ToUpper": true, "strings.ToLower": true,
}

func pureInstr(in ssa.Instruction) bool {
	switch x := in.(type) {
	case *ssa.DebugRef, *ssa.ChangeType, *ssa.Field, *ssa.Extract, *ssa.Index, *ssa.IndexAddr, *ssa.FieldAddr,
		*ssa.MakeInterface, *ssa.ChangeInterface, *ssa.Slice:
		return true
	case *ssa.BinOp:
		switch x.Op {
		case token.QUO, token.REM, token.SHL, token.SHR:
			return false
		}
		return true
	case *ssa.UnOp:
		switch x.Op {
		case token.NOT, token.SUB, token.XOR, token.MUL:
			return true
		}
		return false
	case *ssa.TypeAssert:
		return x.CommaOk
	case *ssa.Convert:
		return widthOf(x.Type()) != 255 && widthOf(x.X.Type()) != 255
	case *ssa.Call:
		if b, ok := x.Call.Value.(*ssa.Builtin); ok && (b.Name() == "len" || b.Name() == "cap") {
			return true
		}
		if f := x.Call.StaticCallee(); f != nil && pureModels[f.String()] {
			return true
		}
		return false
	}
	return false
}

// interiorBlock reports whether b can be part of an if-converted region:
// one predecessor, no phis, only pure instructions, ending in Jump or If.
func interiorBlock(b *ssa.BasicBlock) bool {
	if len(b.Preds) != 1 || len(b.Instrs) == 0 || len(b.Instrs) > 14 {
		return false
	}
	for _, in := range b.Instrs[:len(b.Instrs)-1] {
		if !pureInstr(in) {
			return false
		}
	}
	switch b.Instrs[len(b.Instrs)-1].(type) {
	case *ssa.Jump, *ssa.If:
		return true
	}
	return false
}

// region tries to if-convert the tree-shaped pure region hanging off an If.
// It returns the join block and the list of (predecessor, condition) edges.
func (ex *Exec) region(fr *frame, root *ssa.BasicBlock, c *Term) (*ssa.BasicBlock, []mergeEdge) {
	var edges []mergeEdge
	var join *ssa.BasicBlock
	ok := true
	budget := 24
	ex.spec++
	defer func() { ex.spec-- }()
	var edge func(from, to *ssa.BasicBlock, cond *Term)
	walk := func(b *ssa.BasicBlock, cond *Term) {
		for _, in := range b.Instrs[:len(b.Instrs)-1] {
			ex.visit(fr, in)
		}
		switch last := b.Instrs[len(b.Instrs)-1].(type) {
		case *ssa.Jump:
			edge(b, b.Succs[0], cond)
		case *ssa.If:
			cc, isT := ex.get(fr, last.Cond).(*Term)
			if !isT {
				ok = false
				return
			}
			edge(b, b.Succs[0], ex.B.And(cond, cc))
			edge(b, b.Succs[1], ex.B.And(cond, ex.B.Not(cc)))
		}
	}
	edge = func(from, to *ssa.BasicBlock, cond *Term) {
		if !ok {
			return
		}
		if cond == ex.B.False {
			return
		}
		budget--
		if budget < 0 {
			ok = false
			return
		}
		if to != root && interiorBlock(to) && (join == nil || to != join) {
			walk(to, cond)
			return
		}
		if join == nil {
			join = to
		} else if join != to {
			ok = false
			return
		}
		edges = append(edges, mergeEdge{from, cond})
	}
	edge(root, root.Succs[0], c)
	edge(root, root.Succs[1], ex.B.Not(c))
	if !ok || join == nil || len(edges) < 2 {
		return nil, nil
	}
	// phis of the join must be scalar-mergeable
	for _, instr := range join.Instrs {
		phi, isPhi := instr.(*ssa.Phi)
		if !isPhi {
			break
		}
		var first Value
		for i, e := range edges {
			v := ex.get(fr, phi.Edges[predIndex(join, e.pred)])
			if i == 0 {
				first = v
				continue
			}
			if v == first {
				continue
			}
			ta, ok1 := first.(*Term)
			tb, ok2 := v.(*Term)
			if !ok1 || !ok2 || ta.W != tb.W {
				return nil, nil
			}
		}
	}
	return join, edges
}

func (ex *Exec) tryRegion(fr *frame, root *ssa.BasicBlock, c *Term) (join *ssa.BasicBlock, edges []mergeEdge) {
	defer func() {
		if r := recover(); r != nil {
			if _, ok := r.(*specAbort); ok {
				join, edges = nil, nil
				return
			}
			panic(r)
		}
	}()
	return ex.region(fr, root, c)
}

func (ex *Exec) doIf(fr *frame, in *ssa.If) *ssa.BasicBlock {
	c := ex.get(fr, in.Cond).(*Term)
	b := in.Block()
	if c.Op == OConst {
		if c.Val == 1 {
			return b.Succs[0]
		}
		return b.Succs[1]
	}
	if ex.X.IfConvert {
		if join, edges := ex.tryRegion(fr, b, c); join != nil {
			fr.merge = edges
			ex.X.merged++
			return join
		}
	}
	if ex.X.Branch(c) {
		return b.Succs[0]
	}
	return b.Succs[1]
}

func predIndex(b, pred *ssa.BasicBlock) int {
	for i, p := range b.Preds {
		if p == pred {
			return i
		}
	}
	return -1
}

// get evaluates an SSA value in a frame.
func (ex *Exec) get(fr *frame, v ssa.Value) Value {
	switch x := v.(type) {
	case *ssa.Const:
		return ex.constValue(x)
	case *ssa.Global:
		return &Ptr{Obj: ex.globalObj(x)}
	case *ssa.Function:
		return &Func{Fn: x}
	case *ssa.Builtin:
		return &Func{Builtin: x}
	case nil:
		return nil
	}
	if r, ok := fr.env[v]; ok {
		return r
	}
	panic(fmt.Sprintf("get: no value for %s (%T) in %s", v.Name(), v, fr.fn))
}

func (ex *Exec) constValue(c *ssa.Const) Value {
	t := c.Type()
	if c.Value == nil {
		return ex.zero(t)
	}
	switch u := t.Underlying().(type) {
	case *types.Basic:
		switch {
		case u.Info()&types.IsBoolean != 0:
			return ex.B.Bool(constant.BoolVal(c.Value))
		case u.Info()&types.IsString != 0:
			return ex.mkStr(constant.StringVal(c.Value))
		case u.Info()&types.IsInteger != 0:
			w := widthOf(u)
			if isSigned(u) {
				return ex.B.Const(w, uint64(c.Int64()))
			}
			return ex.B.Const(w, c.Uint64())
		}
	}
	return &Opaque{T: t, Note: "const " + c.String()}
}

func (ex *Exec) globalObj(g *ssa.Global) *Object {
	if o, ok := ex.globals[g]; ok {
		return o
	}
	et := g.Type().(*types.Pointer).Elem()
	o := ex.newObject(et, ex.zero(et), "global "+g.String())
	ex.globals[g] = o
	if g.Pkg != nil && g.Pkg.Pkg.Path() == "io" && g.Name() == "EOF" {
		o.V = ex.mkError("EOF")
	}
	return o
}

// mkError builds an error value implemented by *errors.errorString.
func (ex *Exec) mkError(msg string) Value {
	return ex.mkErrorStr(ex.mkStr(msg))
}

func (ex *Exec) mkErrorStr(msg *Str) Value {
	et := ex.P.errorStringType()
	if et == nil {
		return &Iface{T: types.Typ[types.String], V: msg}
	}
	obj := ex.newObject(et.Elem(), &StructV{F: []Value{msg}}, "error")
	return &Iface{T: et, V: &Ptr{Obj: obj}}
}
