package sym

import (
	"fmt"
	"regexp"
	"sort"
	"strings"
	"sync/atomic"
	"time"

	"golang.org/x/tools/go/ssa"
)

// decision is one entry of the path script.
type decision struct {
	kind   byte // 'b' branch, 'c' concretize, 'p' permutation choice
	taken  bool
	hasAlt bool    // the other side is feasible and not yet explored
	value  int64   // concretize: chosen value
	tried  []int64 // concretize: values already explored (excluded)
	more   bool    // concretize: more values may exist
	n      int     // choose: number of alternatives
}

type obsRec struct {
	label string
	val   *Str
}

// ValSample is a completed path with a concrete input vector and what the
// executor predicts the native run will observe.
type ValSample struct {
	Inputs  map[string]interface{}
	Asserts []string
	Obs     []string
	Path    int
}

// InputVar records a harness input for replay.
type InputVar struct {
	Name  string
	Kind  string  // "str", "int", "bool", "byte", "len"
	Terms []*Term // the variables (bytes of a string, or one term)
	Conc  int64   // for "len": the concrete value on this path
}

// Violation is a failed assertion / escaped panic with a model.
type Violation struct {
	Harness   string
	Label     string // assert label or panic kind
	Where     string
	Signature string
	Inputs    map[string]interface{}
	Path      int
	Detail    string
	Replayed  string // "", "reproduced", "not-reproduced"
}

// Explorer enumerates the feasible paths of one harness entry.
type Explorer struct {
	Prog    *Program
	Harness string
	Solver  *Solver
	Cross   []*Solver // cross-check solvers (optional)

	// knobs
	MaxLoop             int
	MaxSteps            int
	MaxPaths            int
	IfConvert           bool
	UnboundedChans      bool
	MapPerms            int // permute map iteration for maps up to this many entries
	PanicIsViolation    bool
	SprintfMax          int
	TickerTicks         int
	SchedExplore        bool
	YieldKinds          string
	MaxSwitches         int
	DeadlockIsViolation bool
	PermuteIn           map[string]bool
	SymIndex            bool
	Deadlocks           map[string]int
	Deadline            time.Time

	// per-path state
	B         *Builder
	script    []decision
	pos       int
	pc        []*Term
	dom       map[int]Mask256
	entangled map[int]bool
	inputs    []*InputVar
	curFrame  *frame
	reached   map[string]bool
	tainted   bool // an unknown solver answer was treated as feasible

	// accumulated
	Paths        int
	Completed    int
	Aborted      map[string]int
	AbortSamples map[string]string
	Violations   []*Violation
	ReachedAll   map[string]int
	AssertSeen   map[string]int
	Recovered    map[string]int
	Funcs        map[*ssa.Function]int
	merged       int
	DomDecided   int
	CacheHits    int
	Samples      []string
	Unknowns     int
	concVarN     int
	pathStart    time.Time
	frozen       int
	donate       func()
	assertLog    []string // labels of vAssert calls on the current path, in order
	obs          []obsRec // vObserve records on the current path
	ValSamples   []*ValSample
	ValWant      int // how many validation samples to collect
	valCounter   *int64
	ForkSites    map[string]int
	curExec      *Exec
	Params       map[string]int
}

func NewExplorer(p *Program, harness string, s *Solver) *Explorer {
	return &Explorer{Prog: p, Harness: harness, Solver: s, MaxLoop: 20000, MaxSteps: 8000000, MaxPaths: 5000000,
		IfConvert: true, MapPerms: 0, PanicIsViolation: true,
		Aborted: map[string]int{}, AbortSamples: map[string]string{}, ReachedAll: map[string]int{}, AssertSeen: map[string]int{},
		Deadlocks: map[string]int{}, SprintfMax: 2, PermuteIn: map[string]bool{},
		Recovered: map[string]int{}, Funcs: map[*ssa.Function]int{}}
}

func (x *Explorer) noteFunc(fn *ssa.Function) { x.Funcs[fn]++ }
func (x *Explorer) noteRecovered(p *goPanic)  { x.Recovered[p.Kind+"@"+p.Where]++ }
func (x *Explorer) onGo(ex *Exec, f *Func)    {}

// Run explores all paths of harness function fn below the frozen script prefix.
func (x *Explorer) Run(fn *ssa.Function) {
	for {
		if x.Paths >= x.MaxPaths || (!x.Deadline.IsZero() && time.Now().After(x.Deadline)) {
			x.Aborted["budget"]++
			x.AbortSamples["budget"] = fmt.Sprintf("path/time budget exhausted after %d paths", x.Paths)
			return
		}
		x.runOne(fn)
		x.Paths++
		if x.donate != nil {
			x.donate()
		}
		// backtrack: find last decision with an unexplored alternative
		i := len(x.script) - 1
		for ; i >= x.frozen; i-- {
			d := &x.script[i]
			if d.kind == 'b' && d.hasAlt {
				d.taken = !d.taken
				d.hasAlt = false
				break
			}
			if d.kind == 'c' && d.more {
				d.value++
				d.more = int(d.value) < len(d.tried)-1
				break
			}
			if d.kind == 'p' && d.more {
				d.value++
				d.more = d.value < int64(d.n-1)
				break
			}
		}
		if i < x.frozen {
			return
		}
		x.script = x.script[:i+1]
	}
}

func (x *Explorer) runOne(fn *ssa.Function) {
	if x.B == nil {
		x.B = NewBuilder()
	}
	x.pos = 0
	x.pc = nil
	x.dom = map[int]Mask256{}
	x.entangled = map[int]bool{}
	x.inputs = nil
	x.reached = map[string]bool{}
	x.assertLog = nil
	x.obs = nil
	x.tainted = false
	x.concVarN = 0
	ex := &Exec{P: x.Prog, B: x.B, X: x, globals: map[*ssa.Global]*Object{}, ghost: map[string]interface{}{}}
	x.curExec = ex
	ex.initSched()
	defer ex.killAll()
	defer func() {
		if r := recover(); r != nil {
			switch p := r.(type) {
			case *deadlockAbort:
				x.Deadlocks[p.Desc]++
				if x.DeadlockIsViolation {
					x.deadlockViolation(ex, p)
					x.Completed++
				} else {
					x.Aborted["deadlock"]++
					if _, ok := x.AbortSamples["deadlock:"+p.Desc]; !ok && len(x.AbortSamples) < 40 {
						x.AbortSamples["deadlock:"+p.Desc] = x.describeInputs()
					}
				}
			case *abortPath:
				if p.HangIn != "" {
					x.hangViolation(ex, p)
				}
				x.Aborted[p.Kind]++
				if _, ok := x.AbortSamples[p.Kind+":"+p.Reason]; !ok && len(x.AbortSamples) < 40 {
					x.AbortSamples[p.Kind+":"+p.Reason] = x.describeInputs()
				}
			case *goPanic:
				x.escapedPanic(ex, p, "harness")
				x.Completed++
			default:
				panic(r)
			}
		}
	}()
	ex.runInits()
	ex.call(nil, &Func{Fn: fn}, nil, nil)
	ex.settle()
	x.Completed++
	x.maybeSample()
	for k := range x.reached {
		x.ReachedAll[k]++
	}
	if len(x.Samples) < 6 {
		x.Samples = append(x.Samples, x.describeInputs())
	}
}

func (x *Explorer) describeInputs() string {
	var parts []string
	for _, in := range x.inputs {
		switch in.Kind {
		case "len":
			parts = append(parts, fmt.Sprintf("%s=%d", in.Name, in.Conc))
		case "str":
			parts = append(parts, fmt.Sprintf("%s=<%d sym bytes>", in.Name, len(in.Terms)))
		default:
			parts = append(parts, in.Name)
		}
	}
	return fmt.Sprintf("inputs{%s} pc=%d constraints", strings.Join(parts, ","), len(x.pc))
}

// ---- path condition ----------------------------------------------------------

func (x *Explorer) domOf(id int) Mask256 {
	if m, ok := x.dom[id]; ok {
		return m
	}
	return FullMask
}

func (x *Explorer) addConstraint(c *Term) {
	if c.Op == OConst {
		if c.Val == 0 {
			panic(&abortPath{Kind: "infeasible", Reason: "false constraint"})
		}
		return
	}
	if c.Op == OAnd {
		for _, a := range c.Args {
			x.addConstraint(a)
		}
		return
	}
	x.pc = append(x.pc, c)
	if id, m, ok := x.B.UnaryMask(c); ok {
		x.dom[id] = x.domOf(id).And(m)
		return
	}
	for _, v := range c.vars {
		x.entangled[v] = true
	}
}

// slice returns the path constraints transitively sharing variables with c.
func (x *Explorer) slice(c *Term) []*Term {
	vars := map[int]bool{}
	for _, v := range c.vars {
		vars[v] = true
	}
	used := make([]bool, len(x.pc))
	for changed := true; changed; {
		changed = false
		for i, p := range x.pc {
			if used[i] {
				continue
			}
			hit := false
			for _, v := range p.vars {
				if vars[v] {
					hit = true
					break
				}
			}
			if hit {
				used[i] = true
				for _, v := range p.vars {
					if !vars[v] {
						vars[v] = true
						changed = true
					}
				}
			}
		}
	}
	// in path-condition order (the integer encoding's overflow argument relies on it)
	var out []*Term
	for i, p := range x.pc {
		if used[i] {
			out = append(out, p)
		}
	}
	return out
}

// feasible decides whether pc ∧ c is satisfiable (pc itself is satisfiable by invariant).
func (x *Explorer) feasible(c *Term) SatResult {
	if c.Op == OConst {
		if c.Val == 1 {
			return Sat
		}
		return Unsat
	}
	if id, m, ok := x.B.UnaryMask(c); ok {
		r := x.domOf(id).And(m)
		if r.Empty() {
			x.DomDecided++
			return Unsat
		}
		if !x.entangled[id] {
			x.DomDecided++
			return Sat
		}
	}
	return x.solve(c, x.slice(c))
}

func (x *Explorer) solve(c *Term, ctx []*Term) SatResult {
	ids := make([]int, 0, len(ctx)+1)
	for _, p := range ctx {
		ids = append(ids, p.ID)
	}
	sort.Ints(ids)
	var sb strings.Builder
	for _, id := range ids {
		fmt.Fprintf(&sb, "%d,", id)
	}
	fmt.Fprintf(&sb, "|%d", c.ID)
	key := sb.String()
	if r, ok := x.B.SatCache[key]; ok {
		x.CacheHits++
		return r
	}
	as := append(append([]*Term(nil), ctx...), c)
	r, _ := x.Solver.Check(as, nil)
	if len(x.Cross) > 0 && r != Unknown && x.Prog.crossSample() {
		for _, cs := range x.Cross {
			r2, _ := cs.Check(as, nil)
			x.Solver.Stats.CrossChecked++
			if r2 != Unknown && r2 != r {
				x.Solver.Stats.Disagreements++
				r = Unknown
			}
		}
	}
	x.B.SatCache[key] = r
	return r
}

// Branch decides a symbolic condition, forking the exploration when both
// outcomes are feasible. It returns the outcome taken on this path and
// records it in the path condition.
func (x *Explorer) Branch(c *Term) bool {
	if c.Op == OConst {
		return c.Val == 1
	}
	if x.curExec != nil && x.curExec.spec > 0 {
		panic(&specAbort{})
	}
	if x.pos < len(x.script) {
		d := x.script[x.pos]
		x.pos++
		if d.kind != 'b' {
			panic("script desync (branch)")
		}
		if d.taken {
			x.addConstraint(c)
		} else {
			x.addConstraint(x.B.Not(c))
		}
		return d.taken
	}
	ft := x.feasible(c)
	ff := x.feasible(x.B.Not(c))
	if ft == Unknown || ff == Unknown {
		x.Unknowns++
		x.tainted = true
	}
	okT, okF := ft != Unsat, ff != Unsat
	var d decision
	d.kind = 'b'
	switch {
	case okT && okF:
		d.taken, d.hasAlt = true, true
		if x.ForkSites != nil {
			x.ForkSites[x.siteOf()]++
		}
	case okT:
		d.taken = true
	case okF:
		d.taken = false
	default:
		panic(&abortPath{Kind: "infeasible", Reason: "both branches infeasible"})
	}
	x.script = append(x.script, d)
	x.pos++
	if d.taken {
		x.addConstraint(c)
	} else {
		x.addConstraint(x.B.Not(c))
	}
	return d.taken
}

func (x *Explorer) siteOf() string {
	if x.curExec == nil || x.curFrame == nil {
		return "?"
	}
	return x.curExec.where(x.curFrame)
}

// Assume adds c to the path condition; an infeasible assumption ends the
// path. Unlike Branch it never explores the other side.
func (x *Explorer) Assume(c *Term) {
	if c.Op == OConst {
		if c.Val == 0 {
			panic(&abortPath{Kind: "assume", Reason: "assumption false"})
		}
		return
	}
	if x.pos < len(x.script) {
		d := x.script[x.pos]
		x.pos++
		if d.kind != 'a' {
			panic("script desync (assume)")
		}
		if !d.taken {
			panic(&abortPath{Kind: "assume", Reason: "assumption false"})
		}
		x.addConstraint(c)
		return
	}
	r := x.feasible(c)
	if r == Unknown {
		x.Unknowns++
		x.tainted = true
	}
	ok := r != Unsat
	x.script = append(x.script, decision{kind: 'a', taken: ok})
	x.pos++
	if !ok {
		panic(&abortPath{Kind: "assume", Reason: "assumption false"})
	}
	x.addConstraint(c)
}

// AssumeNoCheck adds a constraint known to be satisfiable (e.g. a bound on a fresh variable).
func (x *Explorer) AssumeNoCheck(c *Term) { x.addConstraint(c) }

// Concretize forks over the feasible values of an integer term.
func (x *Explorer) Concretize(t *Term, what string) int64 {
	if t.Op == OConst {
		return sx(t.Val, t.W)
	}
	if x.curExec != nil && x.curExec.spec > 0 {
		panic(&specAbort{})
	}
	if x.pos < len(x.script) {
		d := &x.script[x.pos]
		if d.kind != 'c' {
			panic("script desync (concretize)")
		}
		x.pos++
		v := d.tried[d.value]
		x.addConstraint(x.B.Eq(t, x.B.Const(t.W, uint64(v))))
		return v
	}
	// enumerate every feasible value now (one query per value plus a final unsat)
	ctx := x.sliceVars(t.vars)
	var vals []int64
	var extra []*Term
	for {
		as := append(append([]*Term(nil), ctx...), extra...)
		r, model := x.Solver.Check(as, []*Term{t})
		if r == Unknown {
			x.Unknowns++
			panic(&abortPath{Kind: "unknown", Reason: "solver unknown while concretizing " + what})
		}
		if r == Unsat {
			break
		}
		v := sx(model[t.ID], t.W)
		vals = append(vals, v)
		extra = append(extra, x.B.Not(x.B.Eq(t, x.B.Const(t.W, uint64(v)))))
		if len(vals) > 5000 {
			panic(&abortPath{Kind: "unsupported", Reason: "more than 5000 feasible values while concretizing " + what})
		}
	}
	if len(vals) == 0 {
		panic(&abortPath{Kind: "infeasible", Reason: "no value for " + what})
	}
	sort.Slice(vals, func(i, j int) bool { return vals[i] < vals[j] })
	x.script = append(x.script, decision{kind: 'c', tried: vals, value: 0, more: len(vals) > 1})
	x.pos++
	if x.ForkSites != nil {
		x.ForkSites["concretize "+what+" "+x.siteOf()] += len(vals) - 1
	}
	x.addConstraint(x.B.Eq(t, x.B.Const(t.W, uint64(vals[0]))))
	return vals[0]
}

func (x *Explorer) sliceVars(vs []int) []*Term {
	// build a pseudo-term free-var set
	tmp := &Term{vars: vs}
	return x.slice(tmp)
}

// permute chooses an iteration order for map keys (forking over orders for
// small maps when MapPerms is set).
func (x *Explorer) permute(keys []Value) []Value {
	n := len(keys)
	if n < 2 || n > x.MapPerms {
		return keys
	}
	out := make([]Value, 0, n)
	rest := append([]Value(nil), keys...)
	for len(rest) > 1 {
		k := x.choose(len(rest))
		out = append(out, rest[k])
		rest = append(rest[:k:k], rest[k+1:]...)
	}
	return append(out, rest[0])
}

// choose forks over 0..n-1.
func (x *Explorer) choose(n int) int {
	if n <= 1 {
		return 0
	}
	if x.pos < len(x.script) {
		d := &x.script[x.pos]
		if d.kind != 'p' {
			panic("script desync (choose)")
		}
		x.pos++
		return int(d.value)
	}
	x.script = append(x.script, decision{kind: 'p', value: 0, n: n, more: n > 1})
	if x.ForkSites != nil {
		x.ForkSites["choose "+x.siteOf()] += n - 1
	}
	x.pos++
	return 0
}

// ---- verdicts ------------------------------------------------------------------

func (x *Explorer) allInputTerms() []*Term {
	var ts []*Term
	for _, in := range x.inputs {
		ts = append(ts, in.Terms...)
	}
	return ts
}

func (x *Explorer) modelInputs(model map[int]uint64) map[string]interface{} {
	out := map[string]interface{}{}
	for _, in := range x.inputs {
		switch in.Kind {
		case "len":
			out[in.Name] = in.Conc
		case "str":
			bs := make([]int, len(in.Terms))
			for i, t := range in.Terms {
				bs[i] = int(model[t.ID])
			}
			out[in.Name] = bs
		case "bool":
			out[in.Name] = model[in.Terms[0].ID] == 1
		default:
			out[in.Name] = sx(model[in.Terms[0].ID], in.Terms[0].W)
		}
	}
	return out
}

// Assert checks that c holds on every input of the current path.
// maybeSample keeps a few completed paths (spread over the exploration) as validation vectors.
func (x *Explorer) maybeSample() {
	if x.ValWant == 0 || len(x.ValSamples) >= x.ValWant {
		return
	}
	n := x.Completed
	if !(n == 1 || n == 7 || n == 50 || n%997 == 0 || (x.ValWant > 2 && n%13 == 0)) {
		return
	}
	if x.valCounter != nil && atomic.AddInt64(x.valCounter, 1) > int64(2*x.ValWant) {
		return
	}
	var want []*Term
	want = append(want, x.allInputTerms()...)
	for _, o := range x.obs {
		want = append(want, o.val.B...)
	}
	r, model := x.Solver.Check(x.pc, want)
	if r != Sat {
		return
	}
	if model == nil {
		model = map[int]uint64{}
	}
	vs := &ValSample{Inputs: x.modelInputs(model), Asserts: append([]string(nil), x.assertLog...), Path: x.Paths}
	for _, o := range x.obs {
		bs := make([]byte, len(o.val.B))
		for i, t := range o.val.B {
			if t.Op == OConst {
				bs[i] = byte(t.Val)
			} else {
				bs[i] = byte(model[t.ID])
			}
		}
		vs.Obs = append(vs.Obs, fmt.Sprintf("%s=%x", o.label, bs))
	}
	x.ValSamples = append(x.ValSamples, vs)
}

func (x *Explorer) Assert(ex *Exec, c *Term, label string, fr *frame) {
	x.AssertSeen[label]++
	x.assertLog = append(x.assertLog, label)
	if c.Op == OConst && c.Val == 1 {
		return
	}
	neg := x.B.Not(c)
	switch x.feasible(neg) {
	case Unsat:
		return
	case Unknown:
		x.Unknowns++
		x.Aborted["unknown-assert"]++
		x.AbortSamples["unknown-assert:"+label] = x.describeInputs()
		return
	}
	as := append(append([]*Term(nil), x.pc...), neg)
	r, model := x.Solver.Check(as, x.allInputTerms())
	if r != Sat {
		x.Unknowns++
		x.Aborted["unknown-assert"]++
		x.AbortSamples["unknown-assert:"+label] = x.describeInputs()
		return
	}
	if model == nil {
		model = map[int]uint64{}
	}
	v := &Violation{Harness: x.Harness, Label: label, Where: ex.where(fr), Inputs: x.modelInputs(model), Path: x.Paths}
	v.Signature = x.Harness + "|assert:" + label
	x.Violations = append(x.Violations, v)
	// continue the path under the assumption that the assertion held
	if x.feasible(c) == Unsat {
		panic(&abortPath{Kind: "assert-stop", Reason: "assertion fails on every input of this path: " + label})
	}
	x.addConstraint(c)
}

func (x *Explorer) deadlockViolation(ex *Exec, p *deadlockAbort) {
	r, model := x.Solver.Check(x.pc, x.allInputTerms())
	if r != Sat {
		x.Unknowns++
		x.Aborted["unknown-deadlock"]++
		return
	}
	if model == nil {
		model = map[int]uint64{}
	}
	// signature: the set of blocked operations without goroutine numbers
	sig := regexp.MustCompile(`g\d+\[`).ReplaceAllString(p.Desc, "g[")
	v := &Violation{Harness: x.Harness, Label: "deadlock", Where: "scheduler", Inputs: x.modelInputs(model), Path: x.Paths, Detail: p.Desc}
	v.Signature = x.Harness + "|deadlock:" + sig
	x.Violations = append(x.Violations, v)
}

// hangViolation: a loop of the code under test exceeded the unwinding bound on a
// feasible path. Reported only if the native run of the model input does not finish.
func (x *Explorer) hangViolation(ex *Exec, p *abortPath) {
	sig := x.Harness + "|hang:" + p.HangIn
	for _, v := range x.Violations {
		if v.Signature == sig {
			return // one witness per loop is enough (each native confirmation waits for a timeout)
		}
	}
	r, model := x.Solver.Check(x.pc, x.allInputTerms())
	if r != Sat {
		return
	}
	if model == nil {
		model = map[int]uint64{}
	}
	v := &Violation{Harness: x.Harness, Label: "hang", Where: p.HangIn, Inputs: x.modelInputs(model), Path: x.Paths, Detail: p.Reason}
	v.Signature = sig
	x.Violations = append(x.Violations, v)
}

func (x *Explorer) escapedPanic(ex *Exec, p *goPanic, ctx string) {
	if !x.PanicIsViolation {
		x.Recovered["escaped:"+p.Kind+"@"+p.Where]++
		return
	}
	r, model := x.Solver.Check(x.pc, x.allInputTerms())
	if r != Sat {
		x.Unknowns++
		x.Aborted["unknown-panic"]++
		return
	}
	if model == nil {
		model = map[int]uint64{}
	}
	v := &Violation{Harness: x.Harness, Label: "panic:" + p.Kind, Where: p.Where, Inputs: x.modelInputs(model), Path: x.Paths, Detail: ctx + ": " + p.Msg}
	kind := p.Kind
	if i := strings.Index(kind, " ["); i >= 0 {
		kind = kind[:i]
	}
	v.Signature = x.Harness + "|panic:" + kind + "@" + p.Where
	x.Violations = append(x.Violations, v)
}
