package sym

import (
	"fmt"
	"sort"
	"strings"
	"sync"
)

// Interpreted goroutines are coroutines: each runs on its own host goroutine,
// but a baton guarantees that exactly one of them touches the executor state
// at any time. A goroutine keeps running until it blocks (channel operation,
// mutex, WaitGroup, select) or finishes; the scheduler then hands the baton to
// another runnable goroutine. With Explorer.SchedExplore the choice of the next
// goroutine at visible operations is a symbolic decision that is forked over
// (bounded by MaxSwitches preemptions per path).

type gor struct {
	id       int
	fn       *Func
	args     []Value
	site     string
	started  bool
	done     bool
	wake     chan struct{}
	pred     func() bool // nil: runnable; otherwise runnable iff pred()
	settling bool        // waiting in settle(): runnable only when nobody else is
	what     string      // what it is blocked on
	where    string
	depth    int
}

type killed struct{}

type schedState struct {
	gors     []*gor
	cur      *gor
	dead     bool
	fatal    interface{}
	host     sync.WaitGroup
	switches int
	schedN   int
}

func (ex *Exec) initSched() {
	main := &gor{id: 0, started: true, wake: make(chan struct{}, 1), site: "harness"}
	ex.sch = &schedState{gors: []*gor{main}, cur: main}
}

func (ex *Exec) spawn(f *Func, args []Value, site string) {
	s := ex.sch
	g := &gor{id: len(s.gors), fn: f, args: args, site: site, wake: make(chan struct{}, 1)}
	s.gors = append(s.gors, g)
}

func (g *gor) runnable() bool { return !g.done && !g.settling && (g.pred == nil || g.pred()) }

// runnableOthers lists runnable goroutines other than cur, lowest id first. A
// goroutine waiting in settle() is runnable only when nobody else is.
func (ex *Exec) runnableOthers() []*gor {
	var out []*gor
	var settlers []*gor
	for _, g := range ex.sch.gors {
		if g == ex.sch.cur || g.done {
			continue
		}
		if g.settling {
			settlers = append(settlers, g)
		} else if g.runnable() {
			out = append(out, g)
		}
	}
	if len(out) == 0 {
		return settlers
	}
	return out
}

// transfer hands the baton to next and sleeps until this goroutine is rescheduled.
func (ex *Exec) transfer(next *gor) {
	s := ex.sch
	prev := s.cur
	s.cur = next
	cf := ex.X.curFrame
	ex.wakeOrStart(next)
	<-prev.wake
	ex.X.curFrame = cf
	if s.dead {
		panic(&killed{})
	}
	if prev == s.gors[0] && s.fatal != nil {
		f := s.fatal
		s.fatal = nil
		panic(f)
	}
}

func (ex *Exec) wakeOrStart(g *gor) {
	if !g.started {
		g.started = true
		ex.sch.host.Add(1)
		go ex.runGor(g)
		return
	}
	g.wake <- struct{}{}
}

func (ex *Exec) runGor(g *gor) {
	s := ex.sch
	defer s.host.Done()
	defer func() {
		r := recover()
		if _, ok := r.(*killed); ok {
			return
		}
		main := s.gors[0]
		g.done = true
		switch p := r.(type) {
		case nil:
			// finished: hand the baton on
			if others := ex.runnableOthers(); len(others) > 0 {
				next := others[0]
				// prefer resuming main last only if it is the only one
				s.cur = next
				ex.wakeOrStart(next)
				return
			}
			// nobody can run: main must be blocked for ever
			s.fatal = ex.deadlockValue()
			s.cur = main
			main.wake <- struct{}{}
		case *goPanic:
			// an uncaught panic in a goroutine kills the process
			ex.X.escapedPanic(ex, p, "goroutine started at "+g.site)
			s.fatal = &abortPath{Kind: "crash", Reason: "process crashed by panic in goroutine: " + p.Kind}
			s.cur = main
			main.wake <- struct{}{}
		default:
			s.fatal = r
			s.cur = main
			main.wake <- struct{}{}
		}
	}()
	saved := ex.X.curFrame
	_ = saved
	ex.call(nil, g.fn, g.args, nil)
}

// block suspends the current goroutine until pred() holds.
func (ex *Exec) block(pred func() bool, what string) {
	if ex.spec > 0 {
		panic(&specAbort{})
	}
	s := ex.sch
	for !pred() {
		cur := s.cur
		cur.pred, cur.what, cur.where = pred, what, ex.where(ex.X.curFrame)
		others := ex.runnableOthers()
		if len(others) == 0 {
			if ex.fireTimer() {
				cur.pred = nil
				continue // time passed: a timer fired, look again
			}
			cur.pred = nil
			ex.raiseDeadlock()
		}
		next := others[0]
		if ex.X.SchedExplore && len(others) > 1 && s.switches < ex.X.MaxSwitches {
			// delay-bounded: deviating from the default (lowest id) costs one unit of the budget
			if k := ex.schedChoice(len(others)); k != 0 {
				s.switches++
				next = others[k]
			}
		}
		ex.transfer(next)
		cur.pred = nil
	}
}

// yieldPoint is a preemption point before a visible operation.
func (ex *Exec) yieldPoint(kind ...string) {
	s := ex.sch
	if !ex.X.SchedExplore || ex.spec > 0 || s.switches >= ex.X.MaxSwitches {
		return
	}
	yk := "chan"
	if len(kind) > 0 {
		yk = kind[0]
	}
	if ex.X.YieldKinds != "" && !strings.Contains(ex.X.YieldKinds, yk) {
		return
	}
	others := ex.runnableOthers()
	if len(others) == 0 {
		return
	}
	k := ex.schedChoice(len(others) + 1)
	if k == 0 {
		return
	}
	s.switches++
	ex.transfer(others[k-1])
}

func (ex *Exec) schedChoice(n int) int {
	s := ex.sch
	s.schedN++
	k := ex.X.choose(n)
	ex.X.inputs = append(ex.X.inputs, &InputVar{Name: fmt.Sprintf("sched#%d", s.schedN), Kind: "len", Conc: int64(k)})
	return k
}

// settle lets every other goroutine run until all are finished or blocked.
func (ex *Exec) settle() {
	if ex.spec > 0 {
		panic(&specAbort{})
	}
	cur := ex.sch.cur
	for {
		var next *gor
		for _, g := range ex.sch.gors {
			if g != cur && g.runnable() {
				next = g
				break
			}
		}
		if next == nil {
			if ex.fireTimer() {
				continue
			}
			return
		}
		cur.settling, cur.what = true, "settle"
		ex.transfer(next)
		cur.settling = false
	}
}

func (ex *Exec) blockedList() []string {
	var out []string
	for _, g := range ex.sch.gors {
		if !g.done && !g.settling && g.pred != nil && !g.pred() {
			out = append(out, fmt.Sprintf("g%d[%s] blocked in %s at %s", g.id, shortSite(g.site), g.what, g.where))
		}
	}
	sort.Strings(out)
	return out
}

func shortSite(s string) string {
	if i := strings.LastIndex(s, "/"); i >= 0 {
		return s[i+1:]
	}
	return s
}

func (ex *Exec) deadlockValue() interface{} {
	desc := strings.Join(ex.blockedList(), "; ")
	return &deadlockAbort{Desc: desc}
}

type deadlockAbort struct{ Desc string }

func (ex *Exec) raiseDeadlock() {
	panic(ex.deadlockValue())
}

// killAll terminates every host goroutine of this path.
func (ex *Exec) killAll() {
	s := ex.sch
	if s == nil {
		return
	}
	s.dead = true
	for _, g := range s.gors[1:] {
		if g.started && !g.done {
			select {
			case g.wake <- struct{}{}:
			default:
			}
		}
	}
	s.host.Wait()
}


// Lazy timers (vSetOpt "lazyTimers"): a time.Timer does not fire while anything can
// still run; when every goroutine is blocked the oldest armed timer fires ("time
// passes only when nothing else happens"). The default model is the other extreme:
// a timer may fire as soon as it is armed.
func (ex *Exec) fireTimer() bool {
	for len(ex.pendingTimers) > 0 {
		c := ex.pendingTimers[0]
		ex.pendingTimers = ex.pendingTimers[1:]
		if len(c.Buf) == 0 {
			c.Buf = []Value{ex.zero(c.ET)}
			return true
		}
	}
	return false
}

func (ex *Exec) disarmTimer(c *ChanObj) bool {
	for i, p := range ex.pendingTimers {
		if p == c {
			ex.pendingTimers = append(ex.pendingTimers[:i:i], ex.pendingTimers[i+1:]...)
			return true
		}
	}
	return false
}
