package sym

import (
	"fmt"
)

// Harness intrinsics: functions declared in the overlay file zz_verif_rt.go
// (packages client and state). The native bodies read a replay vector; the
// executor intercepts them by name.
var intrinsics map[string]func(ex *Exec, fr *frame, args []Value) Value

func init() {
	intrinsics = map[string]func(ex *Exec, fr *frame, args []Value) Value{
		"vStr": inVStr,
		"vLen": inVLen,
		"vInt": inVInt,
		"vParam": func(ex *Exec, fr *frame, args []Value) Value {
			name := concreteName(ex, args[0])
			if v, ok := ex.X.Params[name]; ok {
				return ex.i64(int64(v))
			}
			return args[1]
		},
		"vBool":       inVBool,
		"vByte":       inVByte,
		"vAssume":     inVAssume,
		"vAssert":     inVAssert,
		"vReach":      inVReach,
		"vRunPending": func(ex *Exec, fr *frame, args []Value) Value { ex.runPending(); return nil },
		"vSetOpt":     inVSetOpt,
		"vSymbolic":   func(ex *Exec, fr *frame, args []Value) Value { return ex.B.True },
		"vPendingGo":  func(ex *Exec, fr *frame, args []Value) Value { return ex.i64(int64(len(ex.pending))) },
		"vNow":        func(ex *Exec, fr *frame, args []Value) Value { return ex.timeNow() },
		"vAfter":      func(ex *Exec, fr *frame, args []Value) Value { return models["time.After"](ex, fr, args) },
		"vSince":      func(ex *Exec, fr *frame, args []Value) Value { return models["time.Since"](ex, fr, args) },
		"vMark":       func(ex *Exec, fr *frame, args []Value) Value { ex.logEvent("mark:"+concreteName(ex, args[0]), nil); return nil },
		"vEventPos":   inVEventPos,
		"vEventCount": inVEventCount,
		"vEventInt":   inVEventInt,
		"vLockFree":   inVLockFree,
		"vNote":       func(ex *Exec, fr *frame, args []Value) Value { return nil },
	}
}

func concreteName(ex *Exec, v Value) string {
	s, ok := v.(*Str).Concrete()
	if !ok {
		ex.abort("unsupported", "symbolic name passed to intrinsic")
	}
	return s
}

func inVStr(ex *Exec, fr *frame, args []Value) Value {
	name := concreteName(ex, args[0])
	n := ex.concreteInt(fr, args[1], "vStr length")
	in := &InputVar{Name: name, Kind: "str"}
	r := &Str{B: make([]*Term, n)}
	for i := 0; i < n; i++ {
		r.B[i] = ex.B.Var(fmt.Sprintf("%s#%d", name, i), 8)
		in.Terms = append(in.Terms, r.B[i])
	}
	ex.X.inputs = append(ex.X.inputs, in)
	return r
}

func inVLen(ex *Exec, fr *frame, args []Value) Value {
	name := concreteName(ex, args[0])
	lo := ex.concreteInt(fr, args[1], "vLen lo")
	hi := ex.concreteInt(fr, args[2], "vLen hi")
	if hi < lo {
		ex.abort("assume", "vLen empty range")
	}
	k := ex.X.choose(hi - lo + 1)
	ex.X.inputs = append(ex.X.inputs, &InputVar{Name: name, Kind: "len", Conc: int64(lo + k)})
	return ex.i64(int64(lo + k))
}

func inVInt(ex *Exec, fr *frame, args []Value) Value {
	name := concreteName(ex, args[0])
	t := ex.B.Var(name, 64)
	ex.X.inputs = append(ex.X.inputs, &InputVar{Name: name, Kind: "int", Terms: []*Term{t}})
	return t
}

func inVBool(ex *Exec, fr *frame, args []Value) Value {
	name := concreteName(ex, args[0])
	t := ex.B.Var(name, 0)
	ex.X.inputs = append(ex.X.inputs, &InputVar{Name: name, Kind: "bool", Terms: []*Term{t}})
	return t
}

func inVByte(ex *Exec, fr *frame, args []Value) Value {
	name := concreteName(ex, args[0])
	t := ex.B.Var(name, 8)
	ex.X.inputs = append(ex.X.inputs, &InputVar{Name: name, Kind: "byte", Terms: []*Term{t}})
	return t
}

func inVAssume(ex *Exec, fr *frame, args []Value) Value {
	ex.X.Assume(args[0].(*Term))
	return nil
}

func inVAssert(ex *Exec, fr *frame, args []Value) Value {
	label := concreteName(ex, args[1])
	ex.X.Assert(ex, args[0].(*Term), label, fr)
	return nil
}

func inVReach(ex *Exec, fr *frame, args []Value) Value {
	ex.X.reached[concreteName(ex, args[0])] = true
	return nil
}

func inVSetOpt(ex *Exec, fr *frame, args []Value) Value {
	name := concreteName(ex, args[0])
	v := ex.concreteInt(fr, args[1], "vSetOpt")
	switch name {
	case "unboundedChans":
		ex.X.UnboundedChans = v != 0
	case "mapPerms":
		ex.X.MapPerms = v
	case "sprintfMax":
		ex.X.SprintfMax = v
	case "symIndex":
		ex.X.SymIndex = v != 0
	case "panicIsViolation":
		ex.X.PanicIsViolation = v != 0
	case "maxLoop":
		ex.X.MaxLoop = v
	default:
		ex.abort("unsupported", "vSetOpt "+name)
	}
	return nil
}

// ghost event log -----------------------------------------------------------

type ghostEvent struct {
	kind string
	val  Value
}

func (ex *Exec) logEvent(kind string, v Value) {
	ex.gevents = append(ex.gevents, ghostEvent{kind, v})
}

func inVEventCount(ex *Exec, fr *frame, args []Value) Value {
	kind := concreteName(ex, args[0])
	n := 0
	for _, e := range ex.gevents {
		if e.kind == kind {
			n++
		}
	}
	return ex.i64(int64(n))
}

func inVEventInt(ex *Exec, fr *frame, args []Value) Value {
	kind := concreteName(ex, args[0])
	k := ex.concreteInt(fr, args[1], "event index")
	for _, e := range ex.gevents {
		if e.kind == kind {
			if k == 0 {
				return e.val
			}
			k--
		}
	}
	ex.abort("unsupported", "vEventInt: no such event")
	return nil
}

func inVLockFree(ex *Exec, fr *frame, args []Value) Value {
	p := args[0].(*Ptr)
	g := ex.mutexGhost(p)
	return ex.B.Bool(!g.writer && g.readers == 0)
}

func inVEventPos(ex *Exec, fr *frame, args []Value) Value {
	kind := concreteName(ex, args[0])
	k := ex.concreteInt(fr, args[1], "event index")
	for p, e := range ex.gevents {
		if e.kind == kind {
			if k == 0 {
				return ex.i64(int64(p))
			}
			k--
		}
	}
	return ex.i64(-1)
}
