package sym

import (
	"fmt"
	"strings"
)

// Harness intrinsics: functions declared in the overlay file zz_verif_rt.go
// (packages client and state). The native bodies read a replay vector; the
// executor intercepts them by name.
var intrinsics map[string]func(ex *Exec, fr *frame, args []Value) Value

func init() {
	intrinsics = map[string]func(ex *Exec, fr *frame, args []Value) Value{
		"vStr": inVStr,
		"vLen": inVLen,
		"vInt": inVInt,
		"vParam": func(ex *Exec, fr *frame, args []Value) Value {
			name := concreteName(ex, args[0])
			if v, ok := ex.X.Params[name]; ok {
				return ex.i64(int64(v))
			}
			return args[1]
		},
		"vBool":       inVBool,
		"vByte":       inVByte,
		"vAssume":     inVAssume,
		"vAssert":     inVAssert,
		"vReach":      inVReach,
		"vRunPending": func(ex *Exec, fr *frame, args []Value) Value { ex.runPending(); return nil },
		"vSetOpt":     inVSetOpt,
		"vSymbolic":   func(ex *Exec, fr *frame, args []Value) Value { return ex.B.True },
		"vPendingGo": func(ex *Exec, fr *frame, args []Value) Value {
			n := 0
			for _, g := range ex.sch.gors[1:] {
				if !g.done {
					n++
				}
			}
			return ex.i64(int64(n))
		},
		"vDropPending": func(ex *Exec, fr *frame, args []Value) Value {
			for _, g := range ex.sch.gors[1:] {
				if !g.started {
					g.done = true
				}
			}
			return nil
		},
		"vEventStr": func(ex *Exec, fr *frame, args []Value) Value {
			kind := concreteName(ex, args[0])
			k := ex.concreteInt(fr, args[1], "event index")
			for _, e := range ex.gevents {
				if e.kind == kind {
					if k == 0 {
						return e.val
					}
					k--
				}
			}
			ex.abort("unsupported", "vEventStr: no such event")
			return nil
		},
		"vYield":      func(ex *Exec, fr *frame, args []Value) Value { ex.yieldPoint("yield"); return nil },
		"vYieldKinds": func(ex *Exec, fr *frame, args []Value) Value { ex.X.YieldKinds = concreteName(ex, args[0]); return nil },
		"vBlockedGo":  func(ex *Exec, fr *frame, args []Value) Value { return ex.i64(int64(len(ex.blockedList()))) },
		"vNow":        func(ex *Exec, fr *frame, args []Value) Value { return ex.timeNow() },
		"vAfter":      func(ex *Exec, fr *frame, args []Value) Value { return models["time.After"](ex, fr, args) },
		"vSince":      func(ex *Exec, fr *frame, args []Value) Value { return models["time.Since"](ex, fr, args) },
		"vMark": func(ex *Exec, fr *frame, args []Value) Value {
			ex.logEvent("mark:"+concreteName(ex, args[0]), nil)
			return nil
		},
		"vEventPos": inVEventPos,
		"vPermuteIn": func(ex *Exec, fr *frame, args []Value) Value {
			ex.X.PermuteIn[concreteName(ex, args[0])] = true
			return nil
		},
		"vWatch":   inVWatch,
		"vWatchOn": func(ex *Exec, fr *frame, args []Value) Value { ex.watchOn = args[0].(*Term).Val == 1; return nil },
		"vLockAcquires": func(ex *Exec, fr *frame, args []Value) Value {
			p := mutexPtr(ex, args[0])
			return ex.i64(int64(ex.mutexGhost(p).acquires))
		},
		"vLockHeld": func(ex *Exec, fr *frame, args []Value) Value {
			g := ex.mutexGhost(mutexPtr(ex, args[0]))
			return ex.B.Bool(g.writer || g.readers > 0)
		},
		"vSharesStorage": inVSharesStorage,
		"vShares": func(ex *Exec, fr *frame, args []Value) Value {
			a, b := &storageSet{objs: map[*Object][2]int{}, maps: map[*MapObj]bool{}}, &storageSet{objs: map[*Object][2]int{}, maps: map[*MapObj]bool{}}
			ex.collectStorageDeep(args[0], a, 0)
			ex.collectStorageDeep(args[1], b, 0)
			for m := range a.maps {
				if b.maps[m] {
					return ex.B.True
				}
			}
			for o, ra := range a.objs {
				if rb, ok := b.objs[o]; ok && ra[0] < rb[1] && rb[0] < ra[1] {
					return ex.B.True
				}
			}
			return ex.B.False
		},
		"vEventCount": inVEventCount,
		"vEventInt":   inVEventInt,
		"vLockFree":   inVLockFree,
		"vNote":       func(ex *Exec, fr *frame, args []Value) Value { return nil },
	}
}

func concreteName(ex *Exec, v Value) string {
	s, ok := v.(*Str).Concrete()
	if !ok {
		ex.abort("unsupported", "symbolic name passed to intrinsic")
	}
	return s
}

func inVStr(ex *Exec, fr *frame, args []Value) Value {
	name := concreteName(ex, args[0])
	n := ex.concreteInt(fr, args[1], "vStr length")
	in := &InputVar{Name: name, Kind: "str"}
	r := &Str{B: make([]*Term, n)}
	for i := 0; i < n; i++ {
		r.B[i] = ex.B.Var(fmt.Sprintf("%s#%d", name, i), 8)
		in.Terms = append(in.Terms, r.B[i])
	}
	ex.X.inputs = append(ex.X.inputs, in)
	return r
}

func inVLen(ex *Exec, fr *frame, args []Value) Value {
	name := concreteName(ex, args[0])
	lo := ex.concreteInt(fr, args[1], "vLen lo")
	hi := ex.concreteInt(fr, args[2], "vLen hi")
	if hi < lo {
		ex.abort("assume", "vLen empty range")
	}
	// the same name always denotes the same input on one path
	for _, in := range ex.X.inputs {
		if in.Kind == "len" && in.Name == name {
			return ex.i64(in.Conc)
		}
	}
	k := ex.X.choose(hi - lo + 1)
	ex.X.inputs = append(ex.X.inputs, &InputVar{Name: name, Kind: "len", Conc: int64(lo + k)})
	return ex.i64(int64(lo + k))
}

func inVInt(ex *Exec, fr *frame, args []Value) Value {
	name := concreteName(ex, args[0])
	t := ex.B.Var(name, 64)
	ex.X.inputs = append(ex.X.inputs, &InputVar{Name: name, Kind: "int", Terms: []*Term{t}})
	return t
}

func inVBool(ex *Exec, fr *frame, args []Value) Value {
	name := concreteName(ex, args[0])
	t := ex.B.Var(name, 0)
	ex.X.inputs = append(ex.X.inputs, &InputVar{Name: name, Kind: "bool", Terms: []*Term{t}})
	return t
}

func inVByte(ex *Exec, fr *frame, args []Value) Value {
	name := concreteName(ex, args[0])
	t := ex.B.Var(name, 8)
	ex.X.inputs = append(ex.X.inputs, &InputVar{Name: name, Kind: "byte", Terms: []*Term{t}})
	return t
}

func inVAssume(ex *Exec, fr *frame, args []Value) Value {
	ex.X.Assume(args[0].(*Term))
	return nil
}

func inVAssert(ex *Exec, fr *frame, args []Value) Value {
	label := concreteName(ex, args[1])
	ex.X.Assert(ex, args[0].(*Term), label, fr)
	return nil
}

func inVReach(ex *Exec, fr *frame, args []Value) Value {
	ex.X.reached[concreteName(ex, args[0])] = true
	return nil
}

func inVSetOpt(ex *Exec, fr *frame, args []Value) Value {
	name := concreteName(ex, args[0])
	v := ex.concreteInt(fr, args[1], "vSetOpt")
	switch name {
	case "unboundedChans":
		ex.X.UnboundedChans = v != 0
	case "mapPerms":
		ex.X.MapPerms = v
	case "sprintfMax":
		ex.X.SprintfMax = v
	case "tickerTicks":
		ex.X.TickerTicks = v
	case "schedExplore":
		ex.X.SchedExplore = v != 0
	case "maxSwitches":
		ex.X.MaxSwitches = v
	case "deadlockIsViolation":
		ex.X.DeadlockIsViolation = v != 0
	case "symIndex":
		ex.X.SymIndex = v != 0
	case "panicIsViolation":
		ex.X.PanicIsViolation = v != 0
	case "maxLoop":
		ex.X.MaxLoop = v
	case "watchReads":
		ex.watchReads = v != 0
	case "lazyTimers":
		ex.lazyTimers = v != 0
	default:
		ex.abort("unsupported", "vSetOpt "+name)
	}
	return nil
}

// ghost event log -----------------------------------------------------------

type ghostEvent struct {
	kind string
	val  Value
}

func (ex *Exec) logEvent(kind string, v Value) {
	ex.gevents = append(ex.gevents, ghostEvent{kind, v})
}

func inVEventCount(ex *Exec, fr *frame, args []Value) Value {
	kind := concreteName(ex, args[0])
	n := 0
	for _, e := range ex.gevents {
		if e.kind == kind {
			n++
		}
	}
	return ex.i64(int64(n))
}

func inVEventInt(ex *Exec, fr *frame, args []Value) Value {
	kind := concreteName(ex, args[0])
	k := ex.concreteInt(fr, args[1], "event index")
	for _, e := range ex.gevents {
		if e.kind == kind {
			if k == 0 {
				return e.val
			}
			k--
		}
	}
	ex.abort("unsupported", "vEventInt: no such event")
	return nil
}

func inVLockFree(ex *Exec, fr *frame, args []Value) Value {
	p := args[0].(*Ptr)
	g := ex.mutexGhost(p)
	return ex.B.Bool(!g.writer && g.readers == 0)
}

func inVEventPos(ex *Exec, fr *frame, args []Value) Value {
	kind := concreteName(ex, args[0])
	k := ex.concreteInt(fr, args[1], "event index")
	for p, e := range ex.gevents {
		if e.kind == kind {
			if k == 0 {
				return ex.i64(int64(p))
			}
			k--
		}
	}
	return ex.i64(-1)
}

// reachStorage collects the mutable heap storage reachable from a value.
type storageSet struct {
	objs map[*Object][2]int // object -> [lo,hi) element range (for arrays), or [0,1)
	maps map[*MapObj]bool
}

// addRange widens the element range of o that the set owns.
func (s *storageSet) addRange(o *Object, lo, hi int) {
	if r, ok := s.objs[o]; ok {
		if r[0] < lo {
			lo = r[0]
		}
		if r[1] > hi {
			hi = r[1]
		}
	}
	s.objs[o] = [2]int{lo, hi}
}

func (ex *Exec) collectStorage(v Value, s *storageSet, depth int) {
	if depth > 6 {
		return
	}
	switch x := v.(type) {
	case *Ptr:
		if x.Obj == nil {
			return
		}
		if len(x.Path) > 0 {
			// a pointer into an array or struct object owns only that element / field
			s.addRange(x.Obj, x.Path[0], x.Path[0]+1)
			ex.collectStorage(ex.load(x), s, depth+1)
			return
		}
		if _, ok := s.objs[x.Obj]; ok {
			return
		}
		s.objs[x.Obj] = [2]int{0, 1 << 30}
		ex.collectStorage(x.Obj.V, s, depth+1)
	case *Slice:
		if x.Nil || x.Arr == nil || x.Cap == 0 {
			return
		}
		r, ok := s.objs[x.Arr]
		lo, hi := x.Off, x.Off+x.Cap
		if ok {
			if r[0] < lo {
				lo = r[0]
			}
			if r[1] > hi {
				hi = r[1]
			}
		}
		s.objs[x.Arr] = [2]int{lo, hi}
		arr := x.Arr.V.(*ArrayV)
		for k := x.Off; k < x.Off+x.Len; k++ {
			ex.collectStorage(arr.E[k], s, depth+1)
		}
	case *Map:
		if x.M == nil || s.maps[x.M] {
			return
		}
		s.maps[x.M] = true
		for _, e := range x.M.Entries {
			ex.collectStorage(e.V, s, depth+1)
		}
	case *StructV:
		for _, f := range x.F {
			ex.collectStorage(f, s, depth+1)
		}
	case *ArrayV:
		for _, f := range x.E {
			ex.collectStorage(f, s, depth+1)
		}
	case *Iface:
		if x.T != nil {
			ex.collectStorage(x.V, s, depth+1)
		}
	}
}

func inVSharesStorage(ex *Exec, fr *frame, args []Value) Value {
	a, b := &storageSet{objs: map[*Object][2]int{}, maps: map[*MapObj]bool{}}, &storageSet{objs: map[*Object][2]int{}, maps: map[*MapObj]bool{}}
	ex.collectStorage(args[0], a, 0)
	ex.collectStorage(args[1], b, 0)
	for m := range a.maps {
		if b.maps[m] {
			return ex.B.True
		}
	}
	for o, ra := range a.objs {
		if rb, ok := b.objs[o]; ok && ra[0] < rb[1] && rb[0] < ra[1] {
			return ex.B.True
		}
	}
	return ex.B.False
}

// mutexPtr accepts a *sync.Mutex / *sync.RWMutex passed directly or boxed in an interface.
func mutexPtr(ex *Exec, v Value) *Ptr {
	if i, ok := v.(*Iface); ok {
		v = i.V
	}
	p, ok := v.(*Ptr)
	if !ok || p.Obj == nil {
		ex.abort("unsupported", "mutex argument is not a pointer")
	}
	return p
}

// vWatch(root, mu): every heap object and map reachable from root is from now
// on monitored: reads need mu held (read or write), writes need mu write-held.
func inVWatch(ex *Exec, fr *frame, args []Value) Value {
	s := &storageSet{objs: map[*Object][2]int{}, maps: map[*MapObj]bool{}}
	root := args[0]
	if i, ok := root.(*Iface); ok {
		root = i.V
	}
	ex.collectStorageDeep(root, s, 0)
	g := ex.mutexGhost(mutexPtr(ex, args[1]))
	if ex.watchObj == nil {
		ex.watchObj = map[*Object]*mutexGhost{}
		ex.watchMap = map[*MapObj]*mutexGhost{}
	}
	mp := mutexPtr(ex, args[1])
	for o := range s.objs {
		if o == mp.Obj && len(mp.Path) == 0 {
			continue
		}
		ex.watchObj[o] = g
	}
	for m := range s.maps {
		ex.watchMap[m] = g
	}
	return nil
}

// collectStorageDeep also follows map keys (pointer-keyed maps).
func (ex *Exec) collectStorageDeep(v Value, s *storageSet, depth int) {
	if depth > 12 {
		return
	}
	switch x := v.(type) {
	case *Ptr:
		if x.Obj == nil {
			return
		}
		if len(x.Path) > 0 {
			if r, ok := s.objs[x.Obj]; ok && r[0] <= x.Path[0] && x.Path[0] < r[1] {
				return
			}
			s.addRange(x.Obj, x.Path[0], x.Path[0]+1)
			ex.collectStorageDeep(ex.load(x), s, depth+1)
			return
		}
		if r, ok := s.objs[x.Obj]; ok && r[0] == 0 && r[1] == 1<<30 {
			return
		}
		s.objs[x.Obj] = [2]int{0, 1 << 30}
		ex.collectStorageDeep(x.Obj.V, s, depth+1)
	case *Slice:
		if x.Nil || x.Arr == nil {
			return
		}
		if _, ok := s.objs[x.Arr]; ok {
			return
		}
		s.objs[x.Arr] = [2]int{0, 1 << 30}
		ex.collectStorageDeep(x.Arr.V, s, depth+1)
	case *Map:
		if x.M == nil || s.maps[x.M] {
			return
		}
		s.maps[x.M] = true
		for _, e := range x.M.Entries {
			ex.collectStorageDeep(e.K, s, depth+1)
			ex.collectStorageDeep(e.V, s, depth+1)
		}
	case *StructV:
		for _, f := range x.F {
			ex.collectStorageDeep(f, s, depth+1)
		}
	case *ArrayV:
		for _, f := range x.E {
			ex.collectStorageDeep(f, s, depth+1)
		}
	case *Iface:
		if x.T != nil {
			ex.collectStorageDeep(x.V, s, depth+1)
		}
	}
}

func init() {
	intrinsics["vObserve"] = func(ex *Exec, fr *frame, args []Value) Value {
		ex.X.obs = append(ex.X.obs, obsRec{concreteName(ex, args[0]), args[1].(*Str)})
		return nil
	}
}

func init() {
	intrinsics["vPendingGoNamed"] = func(ex *Exec, fr *frame, args []Value) Value {
		sub := concreteName(ex, args[0])
		n := 0
		for _, g := range ex.sch.gors[1:] {
			if !g.done && g.fn != nil && g.fn.Fn != nil && strings.Contains(g.fn.Fn.Name(), sub) {
				n++
			}
		}
		return ex.i64(int64(n))
	}
}

// Wire-framing predicates over a (long, mostly concrete) byte string, built as one
// boolean term each instead of interpreting a byte loop:
//
//	vWireBare(s)        some CR not followed by LF, or LF not preceded by CR
//	vWireTerminated(s)  s ends in CRLF
//	vWireVerbs(s, verb) every line (start of s, or after an LF) begins with verb followed by ' ' or CR
func init() {
	isB := func(ex *Exec, t *Term, c byte) *Term { return ex.B.Eq(t, ex.B.Const(8, uint64(c))) }
	intrinsics["vWireBare"] = func(ex *Exec, fr *frame, args []Value) Value {
		b := args[0].(*Str).B
		var bad []*Term
		for i := range b {
			cr, lf := isB(ex, b[i], '\r'), isB(ex, b[i], '\n')
			if i+1 < len(b) {
				bad = append(bad, ex.B.And(cr, ex.B.Not(isB(ex, b[i+1], '\n'))))
			} else {
				bad = append(bad, cr)
			}
			if i > 0 {
				bad = append(bad, ex.B.And(lf, ex.B.Not(isB(ex, b[i-1], '\r'))))
			} else {
				bad = append(bad, lf)
			}
		}
		return ex.B.Or(bad...)
	}
	intrinsics["vWireTerminated"] = func(ex *Exec, fr *frame, args []Value) Value {
		b := args[0].(*Str).B
		if len(b) < 2 {
			return ex.B.False
		}
		return ex.B.And(isB(ex, b[len(b)-2], '\r'), isB(ex, b[len(b)-1], '\n'))
	}
	intrinsics["vWireVerbs"] = func(ex *Exec, fr *frame, args []Value) Value {
		b := args[0].(*Str).B
		verb := concreteName(ex, args[1])
		var all []*Term
		for p := 0; p < len(b); p++ {
			start := ex.B.True
			if p > 0 {
				start = isB(ex, b[p-1], '\n')
			}
			if start == ex.B.False {
				continue
			}
			m := []*Term{}
			if p+len(verb) >= len(b) {
				all = append(all, ex.B.Not(start)) // no room for verb and a terminator
				continue
			}
			for k := 0; k < len(verb); k++ {
				m = append(m, isB(ex, b[p+k], verb[k]))
			}
			nx := b[p+len(verb)]
			m = append(m, ex.B.Or(isB(ex, nx, ' '), isB(ex, nx, '\r')))
			all = append(all, ex.B.Implies(start, ex.B.And(m...)))
		}
		return ex.B.And(all...)
	}
}
