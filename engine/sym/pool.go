package sym

import (
	"sync"
	"time"

	"golang.org/x/tools/go/ssa"
)

// job is a subtree of one harness's path tree: script[:frozen] is fixed.
type job struct {
	harness *HarnessSpec
	script  []decision
	frozen  int
}

// HarnessSpec describes one harness entry to explore.
type HarnessSpec struct {
	Name     string
	Fn       *ssa.Function
	Params   map[string]int
	Setup    func(x *Explorer)
	Solver   string // primary solver kind for this harness ("" = pool default)
	valTaken int64  // validation samples collected so far (atomic)
}

// Result aggregates the outcome of exploring one harness.
type Result struct {
	Spec         *HarnessSpec
	Paths        int
	Completed    int
	Aborted      map[string]int
	AbortSamples map[string]string
	Violations   []*Violation
	Reached      map[string]int
	AssertSeen   map[string]int
	Recovered    map[string]int
	Deadlocks    map[string]int
	Funcs        map[*ssa.Function]int
	Merged       int
	DomDecided   int
	CacheHits    int
	Unknowns     int
	Samples      []string
	Wall         time.Duration
	ForkSites    map[string]int
	ValSamples   []*ValSample
}

func newResult(s *HarnessSpec) *Result {
	return &Result{Spec: s, Aborted: map[string]int{}, AbortSamples: map[string]string{}, Reached: map[string]int{},
		AssertSeen: map[string]int{}, Recovered: map[string]int{}, Deadlocks: map[string]int{}, Funcs: map[*ssa.Function]int{}}
}

func addMap(dst, src map[string]int) {
	for k, v := range src {
		dst[k] += v
	}
}

func (r *Result) absorb(x *Explorer) {
	r.Paths += x.Paths
	r.Completed += x.Completed
	addMap(r.Aborted, x.Aborted)
	for k, v := range x.AbortSamples {
		if _, ok := r.AbortSamples[k]; !ok && len(r.AbortSamples) < 40 {
			r.AbortSamples[k] = v
		}
	}
	r.Violations = append(r.Violations, x.Violations...)
	addMap(r.Reached, x.ReachedAll)
	addMap(r.AssertSeen, x.AssertSeen)
	addMap(r.Recovered, x.Recovered)
	addMap(r.Deadlocks, x.Deadlocks)
	for f, n := range x.Funcs {
		r.Funcs[f] += n
	}
	if x.ForkSites != nil {
		if r.ForkSites == nil {
			r.ForkSites = map[string]int{}
		}
		addMap(r.ForkSites, x.ForkSites)
	}
	if len(r.ValSamples) < 2*x.ValWant {
		r.ValSamples = append(r.ValSamples, x.ValSamples...)
	}
	r.Merged += x.merged
	r.DomDecided += x.DomDecided
	r.CacheHits += x.CacheHits
	r.Unknowns += x.Unknowns
	if len(r.Samples) < 6 {
		r.Samples = append(r.Samples, x.Samples...)
	}
}

// Pool explores harnesses on several workers with work donation.
type Pool struct {
	Prog       *Program
	Workers    int
	Timeout    time.Duration // per solver query
	Deadline   time.Time
	Stats      *SolverStats
	CrossKinds []string
	Profile    bool
	Primary    string
	ValWant    int

	mu      sync.Mutex
	cond    *sync.Cond
	queue   []*job
	idle    int
	done    bool
	results map[*HarnessSpec]*Result
}

func (p *Pool) Run(specs []*HarnessSpec) []*Result {
	p.cond = sync.NewCond(&p.mu)
	p.results = map[*HarnessSpec]*Result{}
	for _, s := range specs {
		p.results[s] = newResult(s)
		p.queue = append(p.queue, &job{harness: s})
	}
	t0 := time.Now()
	var wg sync.WaitGroup
	for w := 0; w < p.Workers; w++ {
		wg.Add(1)
		go func() {
			defer wg.Done()
			p.worker()
		}()
	}
	wg.Wait()
	var out []*Result
	for _, s := range specs {
		r := p.results[s]
		r.Wall = time.Since(t0)
		out = append(out, r)
	}
	return out
}

func (p *Pool) take() *job {
	p.mu.Lock()
	defer p.mu.Unlock()
	for len(p.queue) == 0 {
		p.idle++
		if p.idle == p.Workers {
			p.done = true
			p.cond.Broadcast()
			return nil
		}
		p.cond.Wait()
		p.idle--
		if p.done {
			return nil
		}
	}
	j := p.queue[0]
	p.queue = p.queue[1:]
	return j
}

func (p *Pool) wantWork() bool {
	p.mu.Lock()
	defer p.mu.Unlock()
	return p.idle > 0 && len(p.queue) < p.idle
}

func (p *Pool) give(j *job) {
	p.mu.Lock()
	p.queue = append(p.queue, j)
	p.mu.Unlock()
	p.cond.Signal()
}

func (p *Pool) worker() {
	primary := p.Primary
	if primary == "" {
		primary = "z3-new"
	}
	solvers := map[string]*Solver{}
	defer func() {
		for _, s := range solvers {
			s.Close()
		}
	}()
	getSolver := func(kind string) *Solver {
		if kind == "" {
			kind = primary
		}
		if s, ok := solvers[kind]; ok {
			return s
		}
		s, err := StartSolver(kind, p.Timeout, p.Stats)
		if err != nil {
			panic(err)
		}
		solvers[kind] = s
		return s
	}
	var cross []*Solver
	for _, k := range p.CrossKinds {
		if cs, err := StartSolver(k, p.Timeout, p.Stats); err == nil {
			cross = append(cross, cs)
			defer cs.Close()
		}
	}
	builders := map[*HarnessSpec]*Builder{}
	for {
		j := p.take()
		if j == nil {
			return
		}
		x := NewExplorer(p.Prog, j.harness.Name, getSolver(j.harness.Solver))
		x.Cross = cross
		if j.harness.Solver == "z3-lia" && len(cross) > 0 {
			// the integer encoding is cross-checked against cvc5's own bit-vector-to-integer translation
			x.Cross = []*Solver{getSolver("cvc5-int")}
		}
		if p.Profile {
			x.ForkSites = map[string]int{}
		}
		x.Params = j.harness.Params
		x.ValWant = p.ValWant
		x.valCounter = &j.harness.valTaken
		x.Deadline = p.Deadline
		if b, ok := builders[j.harness]; ok {
			x.B = b
		}
		if j.harness.Setup != nil {
			j.harness.Setup(x)
		}
		x.script = j.script
		x.frozen = j.frozen
		x.donate = func() {
			if !p.wantWork() {
				return
			}
			// donate the shallowest open alternative
			for i := x.frozen; i < len(x.script); i++ {
				d := &x.script[i]
				if d.kind == 'b' && d.hasAlt {
					ns := append([]decision(nil), x.script[:i+1]...)
					ns[i].taken = !d.taken
					ns[i].hasAlt = false
					d.hasAlt = false
					p.give(&job{harness: j.harness, script: ns, frozen: i + 1})
					return
				}
				if d.kind == 'c' && d.more {
					ns := append([]decision(nil), x.script[:i+1]...)
					ns[i].value = d.value + 1
					ns[i].more = int(ns[i].value) < len(d.tried)-1
					d.more = false
					p.give(&job{harness: j.harness, script: ns, frozen: i})
					return
				}
				if d.kind == 'p' && d.more {
					ns := append([]decision(nil), x.script[:i+1]...)
					ns[i].value = d.value + 1
					ns[i].more = ns[i].value < int64(d.n-1)
					d.more = false
					p.give(&job{harness: j.harness, script: ns, frozen: i})
					return
				}
			}
		}
		x.Run(j.harness.Fn)
		builders[j.harness] = x.B
		p.mu.Lock()
		p.results[j.harness].absorb(x)
		p.mu.Unlock()
	}
}
