package main

import (
	"crypto/sha256"
	"encoding/json"
	"fmt"
	"os"
	"os/exec"
	"path/filepath"
	"regexp"
	"sort"
	"strconv"
	"strings"
	"time"

	"golang.org/x/tools/go/ssa"
	"verif/engine/sym"
)

// Harness is one in-package harness function and its bounds per tier.
type Harness struct {
	Pkg      string // "client" or "state"
	Func     string
	Quick    map[string]int
	Thorough map[string]int
	Setup    func(x *sym.Explorer)
	Reach    []string // labels that must be reached by at least one path (vacuity witnesses)
	Asserts  []string // assert labels that must be evaluated at least once
	Note     string
	Solver   string // primary solver for this harness ("" = default)
	ValSet   bool   // validation compares the set of assertion labels, not their multiset: how many records the harness loops over natively depends on the runtime scheduler
	OrderDep bool   // a counterexample may hinge on the order in which the (unsteerable) native scheduler runs handler goroutines: reported even if the native run does not reproduce it; unlike Sched the harness is still validated
	Direct   bool   // the harness starts from a pre-state built directly in the heap (state.vBuild): if the representation self-test (a violation labelled "repr:...") fails on this tree, its violations are not reported and the check is BROKEN (exit 2)
	Sched    bool   // the harness explores goroutine schedules: a counterexample that the (unsteerable) native scheduler does not reproduce is still reported
}

// Check is the machinery for one property.
type Check struct {
	ID          string
	Title       string
	Harnesses   []Harness
	Bounds      map[string]string // tier -> human-readable bound
	Outside     []string
	Stubs       []string
	Assumptions []string
	Pre         func(p *sym.Program) []string // static pre-check; returned messages are INCONCLUSIVE
	QuickBudget time.Duration
	ThorBudget  time.Duration
	QueryTO     time.Duration
}

type Runner struct {
	Check     *Check
	Tier      string
	Seed      int
	Prog      *sym.Program
	Repo      string
	Verif     string
	Workers   int
	Only      string
	NoReplay  bool
	Overrides map[string]int
	LoadTime  time.Duration
	Out       string // if set: evidence/ and replays/ are written here
}

func (r *Runner) outRoot() string {
	if r.Out != "" {
		return r.Out
	}
	return r.Verif
}

type KnownFinding struct {
	Property  string `json:"property"`
	Signature string `json:"signature"`
	Status    string `json:"status"` // "known" | "fixed"
	Commit    string `json:"commit,omitempty"`
	What      string `json:"what"`
	// optional narrowing: the finding is only this signature under these harness parameters and
	// with these (integer) inputs of the counterexample; other violations with the same
	// signature are still reported
	Params map[string]int `json:"params,omitempty"`
	Inputs map[string]int `json:"inputs,omitempty"`
}

// matches reports whether violation v of harness spec is the recorded finding k.
func (k *KnownFinding) matches(property, sig string, params map[string]int, v *sym.Violation) bool {
	if k.Property != property || k.Status != "known" || k.Signature != sig {
		return false
	}
	for name, want := range k.Params {
		if got, ok := params[name]; !ok || got != want {
			return false
		}
	}
	for name, want := range k.Inputs {
		got, ok := v.Inputs[name]
		if !ok || fmt.Sprint(got) != fmt.Sprint(want) {
			return false
		}
	}
	return true
}

func loadKnown(verif string) []KnownFinding {
	var k struct {
		Findings []KnownFinding `json:"findings"`
	}
	b, err := os.ReadFile(filepath.Join(verif, "known_findings.json"))
	if err != nil {
		return nil
	}
	json.Unmarshal(b, &k)
	return k.Findings
}

func (r *Runner) Run() int {
	t0 := time.Now()
	c := r.Check
	budget := c.QuickBudget
	if r.Tier == "thorough" {
		budget = c.ThorBudget
	}
	if budget == 0 {
		budget = 10 * time.Minute
	}
	qto := c.QueryTO
	if qto == 0 {
		qto = 10 * time.Second
		if r.Tier == "thorough" {
			qto = 60 * time.Second
		}
	}
	var specs []*sym.HarnessSpec
	specHarness := map[*sym.HarnessSpec]*Harness{}
	for i := range c.Harnesses {
		h := &c.Harnesses[i]
		if r.Only != "" && !strings.Contains(h.Func, r.Only) {
			continue
		}
		pkgPath := "github.com/fluffle/goirc/" + h.Pkg
		fn := r.Prog.Func(pkgPath, h.Func)
		if fn == nil {
			fmt.Printf("BROKEN-CHECK property=%s harness %s.%s not found\n", c.ID, h.Pkg, h.Func)
			return 2
		}
		params := map[string]int{}
		src := h.Quick
		if r.Tier == "thorough" {
			src = h.Thorough
			if src == nil {
				src = h.Quick
			}
		}
		for k, v := range src {
			params[k] = v
		}
		for k, v := range r.Overrides {
			params[k] = v
		}
		hs := h.Solver
		if o := os.Getenv("VERIF_HSOLVER"); o != "" && hs != "" {
			hs = o
		}
		sp := &sym.HarnessSpec{Name: h.Func, Fn: fn, Params: params, Setup: h.Setup, Solver: hs}
		specs = append(specs, sp)
		specHarness[sp] = h
	}
	stats := &sym.SolverStats{}
	pool := &sym.Pool{Prog: r.Prog, Workers: r.Workers, Timeout: qto, Deadline: t0.Add(budget), Stats: stats}
	if os.Getenv("VERIF_NOCROSS") == "" {
		pool.CrossKinds = []string{"z3", "cvc5"}
	}
	pool.Primary = envOr("VERIF_SOLVER", "z3-new")
	pool.ValWant = 2
	if n, _ := strconv.Atoi(os.Getenv("VERIF_VALWANT")); n > 0 {
		pool.ValWant = n // validation stress: sample more completed paths per harness
	}
	r.Prog.CrossEvery = 40
	pool.Profile = os.Getenv("VERIF_PROFILE") != ""
	results := pool.Run(specs)

	known := loadKnown(r.Verif)
	exit := 0
	broken := false
	var inconclusive []string
	if c.Pre != nil {
		for _, msg := range c.Pre(r.Prog) {
			inconclusive = append(inconclusive, msg)
			fmt.Printf("INCONCLUSIVE property=%s %s\n", c.ID, msg)
		}
	}
	// the representation self-test of the direct-heap pre-state builder (a violation labelled "repr:...")
	reprBroken := false
	for _, res := range results {
		for _, v := range res.Violations {
			if strings.HasPrefix(v.Label, "repr:") {
				reprBroken = true
			}
		}
	}
	if reprBroken {
		fmt.Printf("BROKEN-CHECK property=%s the tracker's representation on this tree is not the one the direct-heap pre-state builder (state.vBuild) assumes: harnesses that start from such states are not evaluated\n", c.ID)
		broken = true
	}
	totalPaths, totalCompleted := 0, 0
	funcs := map[*ssa.Function]int{}
	var samples []interface{}
	knownHit := []string{}
	violN := 0
	replayed := 0
	recovered := map[string]int{}
	vacuity := 0
	for _, res := range results {
		h := specHarness[res.Spec]
		totalPaths += res.Paths
		totalCompleted += res.Completed
		for f, n := range res.Funcs {
			funcs[f] += n
		}
		for k, v := range res.Recovered {
			recovered[k] += v
		}
		abortKeys := []string{}
		for k, n := range res.Aborted {
			switch k {
			case "assume", "infeasible", "exhausted", "assert-stop":
				continue
			}
			abortKeys = append(abortKeys, fmt.Sprintf("%s=%d", k, n))
		}
		sort.Strings(abortKeys)
		if len(abortKeys) > 0 {
			for k, v := range res.AbortSamples {
				kind := strings.SplitN(k, ":", 2)[0]
				switch kind {
				case "assume", "infeasible", "exhausted", "assert-stop":
					continue
				}
				msg := fmt.Sprintf("%s: %s [%s]", res.Spec.Name, k, v)
				inconclusive = append(inconclusive, msg)
				fmt.Printf("INCONCLUSIVE property=%s %s\n", c.ID, msg)
			}
		}
		if res.Unknowns > 0 {
			msg := fmt.Sprintf("%s: %d solver answers were unknown/timeout", res.Spec.Name, res.Unknowns)
			inconclusive = append(inconclusive, msg)
			fmt.Printf("INCONCLUSIVE property=%s %s\n", c.ID, msg)
		}
		// vacuity witnesses
		reach := h.Reach
		if reach == nil {
			reach = []string{"end"}
		}
		for _, l := range reach {
			if res.Reached[l] == 0 {
				fmt.Printf("BROKEN-CHECK property=%s harness %s never reached %q (vacuous)\n", c.ID, res.Spec.Name, l)
				broken = true
			} else {
				vacuity++
			}
		}
		for _, l := range h.Asserts {
			if res.AssertSeen[l] == 0 {
				fmt.Printf("BROKEN-CHECK property=%s harness %s never evaluated assertion %q (vacuous)\n", c.ID, res.Spec.Name, l)
				broken = true
			} else {
				vacuity++
			}
		}
		fmt.Printf("harness %-28s paths=%d completed=%d aborted=%v violations=%d merged=%d domDecided=%d cacheHits=%d\n",
			res.Spec.Name, res.Paths, res.Completed, res.Aborted, len(res.Violations), res.Merged, res.DomDecided, res.CacheHits)
		for _, s := range res.Samples {
			if len(samples) < 8 {
				samples = append(samples, map[string]interface{}{"harness": res.Spec.Name, "path": s, "verdict": "all assertions unsat-to-violate / no escaping panic"})
			}
		}
		if res.ForkSites != nil {
			type kv struct {
				k string
				n int
			}
			var kvs []kv
			for k, n := range res.ForkSites {
				kvs = append(kvs, kv{k, n})
			}
			sort.Slice(kvs, func(i, j int) bool { return kvs[i].n > kvs[j].n })
			for i, e := range kvs {
				if i < 25 {
					fmt.Printf("  forks %8d  %s\n", e.n, e.k)
				}
			}
		}
		// what the lock monitor and the scheduler saw (kept with the evidence; printed under VERIF_PROFILE)
		if os.Getenv("VERIF_PROFILE") != "" {
			for k, n := range res.Deadlocks {
				if len(k) > 300 {
					k = k[:300]
				}
				fmt.Printf("  monitor/sched %6d  %s\n", n, k)
			}
		}
		if reprBroken && strings.HasPrefix(res.Spec.Name, "VerifStateRepr") {
			continue // reported above
		}
		if reprBroken && h.Direct && len(res.Violations) > 0 {
			msg := fmt.Sprintf("%s: %d counterexample(s) not reported: the tracker's representation on this tree is not the one the direct-heap pre-state builder assumes (representation self-test failed)", res.Spec.Name, len(res.Violations))
			inconclusive = append(inconclusive, msg)
			fmt.Printf("INCONCLUSIVE property=%s %s\n", c.ID, msg)
			continue
		}
		// violations: group by signature
		bySig := map[string][]*sym.Violation{}
		var sigs []string
		for _, v := range res.Violations {
			v.Signature = r.signature(v)
			if _, ok := bySig[v.Signature]; !ok {
				sigs = append(sigs, v.Signature)
			}
			bySig[v.Signature] = append(bySig[v.Signature], v)
		}
		sort.Strings(sigs)
		for _, sig := range sigs {
			vs := bySig[sig]
			violN += len(vs)
			// violations that are a recorded finding (signature + its narrowing) are set aside; if
			// others with the same signature remain, one of those is the representative
			var rest []*sym.Violation
			hitKnown := -1
			for _, x := range vs {
				isK := false
				for i := range known {
					if known[i].matches(c.ID, sig, res.Spec.Params, x) {
						isK = true
						hitKnown = i
					}
				}
				if !isK {
					rest = append(rest, x)
				}
			}
			if hitKnown >= 0 && len(rest) > 0 {
				fmt.Printf("KNOWN-FINDING: property=%s %s (%s)\n", c.ID, known[hitKnown].What, sig)
				knownHit = append(knownHit, sig)
				vs = rest
			}
			v := vs[0]
			path := r.writeReplay(h, res.Spec, v)
			status := "skipped"
			detail := ""
			if !r.NoReplay {
				status, detail = r.replay(h, res.Spec, v, path)
				replayed++
				// the representative may hinge on something the native run cannot show (a timer the
				// model lets fire early, say) while another counterexample of the same group - with
				// different shape choices - does reproduce: try up to three of those
				tried := map[string]bool{shapeKey(v): true}
				for _, alt := range vs[1:] {
					if status != "not-reproduced" || len(tried) >= 4 {
						break
					}
					k := shapeKey(alt)
					if tried[k] {
						continue
					}
					tried[k] = true
					ap := r.writeReplay(h, res.Spec, alt)
					st2, d2 := r.replay(h, res.Spec, alt, ap)
					replayed++
					if st2 != "not-reproduced" {
						v, path, status, detail = alt, ap, st2, d2
					}
				}
			}
			if status == "reproduced-other" {
				status = "reproduced"
				other := res.Spec.Name + "|" + strings.TrimPrefix(detail, "outcome=")
				for _, k := range known {
					if k.Property == c.ID && k.Status == "known" && k.Signature == other {
						status = "not-reproduced" // what the native run hit is the recorded finding, not this counterexample
					}
				}
				detail = "native run on this input fails " + detail
			}
			isKnown := false
			for _, k := range known {
				if k.matches(c.ID, sig, res.Spec.Params, v) {
					isKnown = true
					fmt.Printf("KNOWN-FINDING: property=%s %s (%s)\n", c.ID, k.What, sig)
					knownHit = append(knownHit, sig)
				}
			}
			samples = append(samples, map[string]interface{}{"harness": res.Spec.Name, "violation": v.Label, "where": v.Where, "signature": sig, "inputs": v.Inputs, "replay": status, "count": len(vs)})
			if isKnown {
				continue
			}
			if status == "not-reproduced" && (h.Sched || h.OrderDep) && v.Label != "hang" {
				// the violation depends on a goroutine schedule chosen by the solver; the native
				// runtime scheduler cannot be steered, so the executor's schedule trace is the evidence
				status = "schedule-only"
			}
			if status == "not-reproduced" && strings.HasPrefix(v.Label, "monitor:") {
				// lock-discipline monitors observe which lock is held at each heap access on the
				// path the executor followed through the real SSA; a single-threaded native run
				// cannot observe that, so these are reported on the executor's evidence alone.
				status = "monitor-only"
			}
			switch status {
			case "reproduced", "skipped", "monitor-only", "schedule-only":
				fmt.Printf("VIOLATION property=%s replay=%s\n", c.ID, path)
				fmt.Printf("  %s %s at %s (%d paths) inputs=%s replay=%s %s\n", res.Spec.Name, v.Label, v.Where, len(vs), compactJSON(v.Inputs), status, detail)
				exit = 1
			default:
				msg := fmt.Sprintf("%s: counterexample for %s at %s did not reproduce natively (%s %s); inputs=%s", res.Spec.Name, v.Label, v.Where, status, detail, compactJSON(v.Inputs))
				inconclusive = append(inconclusive, msg)
				fmt.Printf("INCONCLUSIVE property=%s %s\n", c.ID, msg)
			}
		}
	}
	// executor-vs-compiler validation: a few completed paths per harness are
	// rerun natively on a model of their path condition; the native run must be
	// clean and must evaluate the same assertions / observe the same values.
	validated, valMismatch := 0, 0
	if !r.NoReplay && os.Getenv("VERIF_NOVALIDATE") == "" {
		type vjob struct {
			h  *Harness
			sp *sym.HarnessSpec
			vs *sym.ValSample
		}
		var jobs []vjob
		for _, res := range results {
			h := specHarness[res.Spec]
			for i, vs := range res.ValSamples {
				if i < pool.ValWant {
					jobs = append(jobs, vjob{h, res.Spec, vs})
				}
			}
		}
		type vres struct {
			j   vjob
			msg string
		}
		out := make(chan vres, len(jobs))
		sem := make(chan struct{}, 8)
		for _, j := range jobs {
			go func(j vjob) {
				sem <- struct{}{}
				defer func() { <-sem }()
				out <- vres{j, r.validate(j.h, j.sp, j.vs)}
			}(j)
		}
		for range jobs {
			v := <-out
			validated++
			if v.msg != "" {
				valMismatch++
				msg := fmt.Sprintf("%s: executor and compiled code disagree on a completed path: %s; inputs=%s", v.j.sp.Name, v.msg, compactJSON(v.j.vs.Inputs))
				inconclusive = append(inconclusive, msg)
				fmt.Printf("INCONCLUSIVE property=%s %s\n", c.ID, msg)
			}
		}
		replayed += validated
	}
	wall := time.Since(t0)
	// evidence
	type fe struct {
		Name   string `json:"name"`
		Instrs int    `json:"instrs"`
		Hash   string `json:"ssa_hash"`
		Calls  int    `json:"calls"`
	}
	var fes []fe
	for f, n := range funcs {
		if f.Pkg == nil || !strings.HasPrefix(f.Pkg.Pkg.Path(), "github.com/fluffle/goirc") && !strings.HasPrefix(f.Pkg.Pkg.Path(), "github.com/emersion") {
			continue
		}
		if strings.HasPrefix(f.Name(), "v") && len(f.Name()) > 1 && f.Name()[1] >= 'A' && f.Name()[1] <= 'Z' {
			continue
		}
		ic, hs := sym.FuncHash(f)
		fes = append(fes, fe{f.String(), ic, hs, n})
	}
	sort.Slice(fes, func(i, j int) bool { return fes[i].Name < fes[j].Name })
	recKeys := []string{}
	for k, n := range recovered {
		recKeys = append(recKeys, fmt.Sprintf("%s x%d", k, n))
	}
	sort.Strings(recKeys)
	if len(samples) == 0 {
		samples = append(samples, "no completed path")
	}
	cov := map[string]interface{}{
		"states":                        max(totalCompleted, 1),
		"transitions":                   max(int(stats.Queries)+sumDom(results), 1),
		"traces_validated_against_impl": replayed,
		"samples":                       samples,
		"paths_explored":                totalPaths,
		"paths_completed":               totalCompleted,
		"functions_encoded":             fes,
		"bounds":                        c.Bounds[r.Tier],
		"outside_bounds":                c.Outside,
		"queries": map[string]interface{}{"solver_calls": stats.Queries, "sat": stats.SatN, "unsat": stats.UnsatN, "unknown": stats.UnknownN,
			"error": stats.Errors, "cross_checked": stats.CrossChecked, "disagreements": stats.Disagreements,
			"decided_by_byte_domain_propagation": sumDom(results), "cache_hits": sumCache(results)},
		"solver_s":                 float64(stats.SolverNS) / 1e9,
		"load_ssa_s":               r.LoadTime.Seconds(),
		"stubs":                    c.Stubs,
		"vacuity_witnesses":        vacuity,
		"paths_validated_natively": validated,
		"validation_mismatches":    valMismatch,
		"inconclusive":             inconclusive,
		"known_findings_hit":       knownHit,
		"recovered_panics":         recKeys,
		"if_converted":             sumMerged(results),
		"exhaustive":               len(inconclusive) == 0,
		"explanation":              "states = feasible complete paths of the real SSA explored symbolically; transitions = branch/assert/panic-guard decisions (SMT queries + decisions settled by exact per-byte domain propagation)",
	}
	nz := func(a []string) []string {
		if a == nil {
			return []string{}
		}
		return a
	}
	cov["outside_bounds"], cov["stubs"], cov["inconclusive"], cov["known_findings_hit"], cov["recovered_panics"] = nz(c.Outside), nz(c.Stubs), nz(inconclusive), nz(knownHit), nz(recKeys)
	ev := map[string]interface{}{
		"property_id": c.ID, "tier": r.Tier, "seed": r.Seed, "level": "model_checking",
		"coverage": cov, "assumptions": nz(c.Assumptions), "wall_s": wall.Seconds(), "violations": violN,
	}
	os.MkdirAll(filepath.Join(r.outRoot(), "evidence"), 0o755)
	b, _ := json.MarshalIndent(ev, "", " ")
	os.WriteFile(filepath.Join(r.outRoot(), "evidence", c.ID+".json"), b, 0o644)
	fmt.Printf("check %s tier=%s paths=%d completed=%d solver_calls=%d (sat %d unsat %d unknown %d err %d) cross=%d disagree=%d solver_s=%.1f wall=%.1fs inconclusive=%d violations=%d\n",
		c.ID, r.Tier, totalPaths, totalCompleted, stats.Queries, stats.SatN, stats.UnsatN, stats.UnknownN, stats.Errors, stats.CrossChecked, stats.Disagreements,
		float64(stats.SolverNS)/1e9, wall.Seconds(), len(inconclusive), violN)
	if len(sym.LIAFallbacks) > 0 {
		fmt.Printf("lia: %d queries decided over the integers; fallbacks to bit-vectors: %v\n", stats.LIA, sym.LIAFallbacks)
	}
	if exit == 1 {
		return 1
	}
	if broken {
		return 2
	}
	return exit
}

func sumDom(rs []*sym.Result) int {
	n := 0
	for _, r := range rs {
		n += r.DomDecided
	}
	return n
}
func sumCache(rs []*sym.Result) int {
	n := 0
	for _, r := range rs {
		n += r.CacheHits
	}
	return n
}
func sumMerged(rs []*sym.Result) int {
	n := 0
	for _, r := range rs {
		n += r.Merged
	}
	return n
}

func compactJSON(v interface{}) string {
	b, _ := json.Marshal(v)
	s := string(b)
	if len(s) > 400 {
		s = s[:400] + "…"
	}
	return s
}

// signature is the stable identity of a violation: harness, label and — for
// panics — the function and source text of the raising line.
func (r *Runner) signature(v *sym.Violation) string {
	if strings.HasPrefix(v.Label, "panic:") {
		kind := v.Label
		if i := strings.Index(kind, " ["); i >= 0 {
			kind = kind[:i]
		}
		return v.Harness + "|" + kind + "@" + r.Prog.SourceSig(v.Where)
	}
	return v.Harness + "|assert:" + v.Label
}

type replayFile struct {
	Property  string                 `json:"property"`
	Harness   string                 `json:"harness"`
	Pkg       string                 `json:"pkg"`
	Label     string                 `json:"label"`
	Where     string                 `json:"where"`
	Signature string                 `json:"signature"`
	Detail    string                 `json:"detail"`
	Params    map[string]int         `json:"params"`
	Inputs    map[string]interface{} `json:"inputs"`
}

func (r *Runner) writeReplay(h *Harness, sp *sym.HarnessSpec, v *sym.Violation) string {
	rf := replayFile{Property: r.Check.ID, Harness: h.Func, Pkg: h.Pkg, Label: v.Label, Where: v.Where, Signature: v.Signature, Detail: v.Detail, Params: sp.Params, Inputs: v.Inputs}
	b, _ := json.MarshalIndent(rf, "", " ")
	sum := sha256.Sum256([]byte(v.Signature))
	dir := filepath.Join(r.outRoot(), "replays")
	os.MkdirAll(dir, 0o755)
	p := filepath.Join(dir, fmt.Sprintf("%s-%x.json", r.Check.ID, sum[:4]))
	os.WriteFile(p, b, 0o644)
	return p
}

// replay runs the harness natively on the counterexample.
func (r *Runner) replay(h *Harness, sp *sym.HarnessSpec, v *sym.Violation, path string) (string, string) {
	out, err := runNative(r.Repo, r.Verif, h.Pkg, h.Func, path)
	_ = err
	want := v.Label
	var outcomes []string
	for _, l := range strings.Split(out, "\n") {
		if strings.HasPrefix(l, "VERIF-REPLAY ") {
			outcomes = append(outcomes, strings.TrimPrefix(l, "VERIF-REPLAY "))
		}
	}
	crashed := strings.Contains(out, "\npanic: ") || strings.HasPrefix(out, "panic: ") || strings.Contains(out, "fatal error:")
	if strings.Contains(out, "test timed out") {
		// the native run never finished: the disconnect / call under test hangs for real
		return "reproduced", "native run hung (go test timeout): " + firstLineWith(out, "panic: test timed out")
	}
	if want == "hang" {
		// (a native run that timed out was already reported above)
		return "not-reproduced", "the loop that exceeded the unwinding bound terminates natively: " + strings.Join(outcomes, "; ")
	}
	if want == "deadlock" {
		if strings.Contains(out, "test timed out") || strings.Contains(out, "all goroutines are asleep") {
			return "reproduced", "native run hung: " + firstLineWith(out, "panic: ")
		}
		return "not-reproduced", strings.Join(outcomes, "; ") + tail(out, 200)
	}
	if strings.HasPrefix(want, "panic:") {
		for _, o := range outcomes {
			if strings.HasPrefix(o, "outcome=panic") {
				return "reproduced", o
			}
		}
		if crashed {
			return "reproduced", "process crashed: " + firstLineWith(out, "panic: ")
		}
		return "not-reproduced", strings.Join(outcomes, "; ") + tail(out, 300)
	}
	for _, o := range outcomes {
		if o == "outcome=assert:"+want {
			return "reproduced", o
		}
	}
	// the same input natively violates another assertion of this harness (e.g. one evaluated
	// earlier under the native goroutine order): still a demonstrated violation of the property
	for _, o := range outcomes {
		if strings.HasPrefix(o, "outcome=assert:") || strings.HasPrefix(o, "outcome=panic") {
			return "reproduced-other", o
		}
	}
	return "not-reproduced", strings.Join(outcomes, "; ") + tail(out, 300)
}

// validate reruns a completed path natively and compares what was evaluated.
func (r *Runner) validate(h *Harness, sp *sym.HarnessSpec, vs *sym.ValSample) string {
	tmp, err := os.MkdirTemp("", "gosmt-val-")
	if err != nil {
		return ""
	}
	defer os.RemoveAll(tmp)
	rf := replayFile{Property: r.Check.ID, Harness: h.Func, Pkg: h.Pkg, Label: "validation", Params: sp.Params, Inputs: vs.Inputs}
	b, _ := json.Marshal(rf)
	vec := filepath.Join(tmp, "vector.json")
	os.WriteFile(vec, b, 0o644)
	if h.Sched {
		return "" // what a schedule-exploring harness observes natively depends on the runtime scheduler
	}
	out, _ := runNative(r.Repo, r.Verif, h.Pkg, h.Func, vec)
	if !strings.Contains(out, "VERIF-REPLAY outcome=clean") {
		return "native run not clean:" + tail(out, 300)
	}
	var asserts, obs []string
	for _, l := range strings.Split(out, "\n") {
		if strings.HasPrefix(l, "VERIF-ASSERTS ") {
			if a := strings.TrimPrefix(l, "VERIF-ASSERTS "); a != "" {
				asserts = strings.Split(a, ",")
			}
		}
		if strings.HasPrefix(l, "VERIF-OBS ") {
			obs = append(obs, strings.TrimPrefix(l, "VERIF-OBS "))
		}
	}
	if h.Sched {
		return "" // assertion order and count depend on the native scheduler
	}
	// monitor: assertions sit behind executor-only observations (goroutine counts, lock monitors,
	// modelled tickers) and are not evaluated natively: compare the others
	noMon := func(in []string) []string {
		var out []string
		for _, a := range in {
			if !strings.HasPrefix(a, "monitor:") {
				out = append(out, a)
			}
		}
		return out
	}
	want := noMon(vs.Asserts)
	asserts = noMon(asserts)
	if h.ValSet {
		want, asserts = uniq(want), uniq(asserts)
	}
	sort.Strings(want)
	sort.Strings(asserts)
	if strings.Join(want, ",") != strings.Join(asserts, ",") {
		msg := fmt.Sprintf("assertions evaluated differ: executor %d, native %d", len(want), len(asserts))
		if os.Getenv("VERIF_VALDUMP") != "" {
			msg += fmt.Sprintf(" executor-obs=%v native-obs=%v", vs.Obs, obs)
		}
		return msg
	}
	wo := append([]string(nil), vs.Obs...)
	sort.Strings(wo)
	sort.Strings(obs)
	if strings.Join(wo, "|") != strings.Join(obs, "|") {
		return fmt.Sprintf("observed values differ: executor %v native %v", wo, obs)
	}
	return ""
}

func uniq(in []string) []string {
	seen := map[string]bool{}
	var out []string
	for _, a := range in {
		if !seen[a] {
			seen[a] = true
			out = append(out, a)
		}
	}
	return out
}

func firstLineWith(s, sub string) string {
	for _, l := range strings.Split(s, "\n") {
		if strings.Contains(l, sub) {
			return l
		}
	}
	return ""
}

func tail(s string, n int) string {
	if len(s) > n {
		s = s[len(s)-n:]
	}
	return " | " + strings.ReplaceAll(s, "\n", " / ")
}

// runNative compiles the repo with the harness overlay and runs one harness
// on a replay vector.
func runNative(repo, verif, pkg, fn, vector string) (string, error) {
	tmp, err := os.MkdirTemp("", "gosmt-replay-")
	if err != nil {
		return "", err
	}
	defer os.RemoveAll(tmp)
	repl := map[string]string{}
	for _, sub := range []string{"client", "state"} {
		files, _ := filepath.Glob(filepath.Join(verif, "harness", sub, "*.go"))
		for _, f := range files {
			repl[filepath.Join(repo, sub, filepath.Base(f))] = f
		}
	}
	// model clock and counting mutexes: compile temporary copies of the package's
	// repository files (generated from the current source) in which the clock
	// calls go to the harness clock and sync.Mutex / sync.RWMutex are the
	// harness's counting wrappers.
	{
		files, _ := filepath.Glob(filepath.Join(repo, pkg, "*.go"))
		for i, f := range files {
			if strings.HasSuffix(f, "_test.go") {
				continue
			}
			if _, isOverlay := repl[f]; isOverlay {
				continue
			}
			b, err := os.ReadFile(f)
			if err != nil {
				continue
			}
			src := string(b)
			ns := src
			if pkg == "client" {
				ns = strings.NewReplacer("time.Now()", "vNow()", "time.After(", "vAfter(", "time.Since(", "vSince(").Replace(ns)
			}
			ns = strings.NewReplacer("sync.RWMutex", "RWMutex", "sync.Mutex", "Mutex").Replace(ns)
			if ns == src {
				continue
			}
			if !regexp.MustCompile(`\btime\.[A-Z]`).MatchString(ns) {
				ns = strings.Replace(ns, "\t\"time\"\n", "", 1)
			}
			if !regexp.MustCompile(`\bsync\.[A-Z]`).MatchString(ns) {
				ns = strings.Replace(ns, "\t\"sync\"\n", "", 1)
				ns = strings.Replace(ns, "\n\t\"sync\"\n", "\n", 1)
			}
			tf := filepath.Join(tmp, fmt.Sprintf("copy_%d_%s", i, filepath.Base(f)))
			os.WriteFile(tf, []byte(ns), 0o644)
			repl[f] = tf
		}
	}
	stateImport, stateFailures := "", ""
	if pkg == "client" {
		stateImport = "\n\t\"github.com/fluffle/goirc/state\"\n"
		stateFailures = "vFailures = append(vFailures, state.VFailures()...)\n\tvAssertLog = append(vAssertLog, state.VAssertLog()...)\n\tvObsLog = append(vObsLog, state.VObsLog()...)"
	}
	testSrc := fmt.Sprintf(`//go:build verif

package %s

import (
	"fmt"
	"strings"
	"testing"
%s)

func TestVerifReplay(t *testing.T) {
	var pv interface{}
	func() {
		defer func() { pv = recover() }()
		%s()
	}()
	if af, ok := pv.(vAssumeFailed); ok {
		fmt.Printf("VERIF-REPLAY outcome=assume-failed %%v\n", af)
		return
	}
	if pv != nil {
		fmt.Printf("VERIF-REPLAY outcome=panic detail=%%v\n", pv)
		return
	}
	%s
	fmt.Printf("VERIF-ASSERTS %%s\n", strings.Join(vAssertLog, ","))
	for _, o := range vObsLog {
		fmt.Printf("VERIF-OBS %%s\n", o)
	}
	for _, f := range vFailures {
		fmt.Printf("VERIF-REPLAY outcome=assert:%%s\n", f)
	}
	if len(vFailures) == 0 {
		fmt.Println("VERIF-REPLAY outcome=clean")
	}
}
`, pkg, stateImport, fn, stateFailures)
	tf := filepath.Join(tmp, "zz_verif_replay_test.go")
	os.WriteFile(tf, []byte(testSrc), 0o644)
	repl[filepath.Join(repo, pkg, "zz_verif_replay_test.go")] = tf
	ob, _ := json.Marshal(map[string]interface{}{"Replace": repl})
	of := filepath.Join(tmp, "overlay.json")
	os.WriteFile(of, ob, 0o644)
	cmd := exec.Command("timeout", "300", "go", "test", "-tags", "verif,verifreplay", "-vet=off", "-count=1", "-v", "-timeout", "30s", "-overlay", of, "-run", "^TestVerifReplay$", "./"+pkg)
	cmd.Dir = repo
	cmd.Env = append(os.Environ(), "GOFLAGS=-mod=mod", "GOPROXY=off", "GOSUMDB=off", "GOTOOLCHAIN=local", "VERIF_REPLAY="+vector)
	out, err := cmd.CombinedOutput()
	return string(out), err
}

func cmdReplay(args []string) int {
	if len(args) < 1 {
		usage()
	}
	b, err := os.ReadFile(args[0])
	if err != nil {
		fmt.Fprintln(os.Stderr, err)
		return 2
	}
	var rf replayFile
	if err := json.Unmarshal(b, &rf); err != nil {
		fmt.Fprintln(os.Stderr, err)
		return 2
	}
	abs, _ := filepath.Abs(args[0])
	out, _ := runNative(envOr("VERIF_REPO", "/repo"), envOr("VERIF_DIR", "/verif"), rf.Pkg, rf.Harness, abs)
	fmt.Print(out)
	fmt.Printf("expected: %s at %s\n", rf.Label, rf.Where)
	if strings.Contains(out, "outcome=clean") {
		return 0
	}
	return 1
}


// shapeKey: the shape choices of a counterexample (its integer inputs other than clock
// readings and schedule decisions), used to pick differently shaped alternatives for replay.
func shapeKey(v *sym.Violation) string {
	var ks []string
	for k, x := range v.Inputs {
		if strings.HasPrefix(k, "now#") || strings.HasPrefix(k, "sched#") {
			continue
		}
		switch n := x.(type) {
		case int, int64, uint64, float64, bool:
			ks = append(ks, fmt.Sprintf("%s=%v", k, n))
		}
	}
	sort.Strings(ks)
	return strings.Join(ks, ",")
}
