package main

import (
	"time"

	"verif/engine/sym"
)

func allChecks() []*Check {
	return []*Check{
		{
			ID: "C03", Title: "Foreground handlers see server events one at a time, in wire order",
			Harnesses: []Harness{
				{Pkg: "client", Func: "VerifSession", Sched: true, Quick: map[string]int{"N": 3, "SW": 1, "KINDS": 0, "TRACK": 0}, Thorough: map[string]int{"N": 3, "SW": 2, "KINDS": 0, "TRACK": 0}, Asserts: []string{"fg-handlers-of-different-lines-never-overlap", "fg-handlers-in-wire-order", "CONNECTED-after-welcome-applied", "CONNECTED-before-any-later-line", "later-line-only-after-CONNECTED-finished", "DISCONNECTED-only-after-fg-handlers-finished", "DISCONNECTED-exactly-once", "every-handler-of-every-line-exactly-once"}},
				{Pkg: "client", Func: "VerifSession", Sched: true, Quick: map[string]int{"N": 3, "SW": 1, "KINDS": 0, "TRACK": 0, "EARLY": 1}, Thorough: map[string]int{"N": 3, "SW": 2, "KINDS": 0, "TRACK": 0, "EARLY": 1}, Asserts: []string{"DISCONNECTED-only-after-fg-handlers-finished", "DISCONNECTED-exactly-once", "fg-handlers-in-wire-order"}, Note: "disconnect while lines are being processed"},
				{Pkg: "client", Func: "VerifC01Deliver", Quick: map[string]int{"LONG": 1, "VBL": 1, "TL": 1}, Thorough: map[string]int{"LONG": 1, "VBL": 2, "TL": 2}, Asserts: []string{"delivered-equal", "next-line-delivered"}, Note: "a line longer than the read buffer, followed by another"},
				{Pkg: "client", Func: "VerifSession", Sched: true, Quick: map[string]int{"N": 3, "SW": 1, "KINDS": 0, "TRACK": 0, "FRAG": 1}, Thorough: map[string]int{"N": 4, "SW": 2, "KINDS": 0, "TRACK": 0, "FRAG": 1}, Asserts: []string{"fg-handlers-in-wire-order", "DISCONNECTED-exactly-once"}, Note: "the server hangs up mid-stream: the last line arrives without CR-LF, then EOF"},
				{Pkg: "client", Func: "VerifC03Burst", Sched: true, Quick: map[string]int{"LINES": 40, "SW": 1, "KINDS": 0}, Thorough: map[string]int{"LINES": 70, "SW": 1, "KINDS": 1}, Asserts: []string{"burst:every-line-delivered-once", "burst:delivered-in-wire-order"}, Note: "more lines in one read than the internal queue holds, behind a held handler"},
			},
			Bounds: map[string]string{"quick": "a scripted session of 3 lines (001 changing the nick, own JOIN, PING; thorough adds another user's JOIN and a PRIVMSG; names symbolic) over the real Connect/recv/runLoop/dispatch/Close with 2 foreground + 1 background handler per verb and CONNECTED/DISCONNECTED handlers; the byte stream cut into reads in 4 ways (whole, mid-line, between CR and LF, at a line boundary); one designated handler invocation returns / yields mid-way; ended by server EOF, one Close, or two Closes racing EOF, after delivery or while lines are in flight; goroutine schedules: the deterministic run-until-block schedule plus every schedule within 1 deviation (delay bound 1) at block points, select choices and explicit yields; foreground handlers reply with Raw; a 4200-byte line through recv; a burst of 40 lines in one read (more than the 32-slot internal queue) behind a held foreground handler, delay bound 1",
				"thorough": "3 lines with delay bound 2; burst of 70 lines with preemption also at mutex operations"},
			Outside:     []string{"schedules needing more deviations than the delay bound; GOMAXPROCS is immaterial to the model (every interleaving at the modelled visible operations is a schedule of the coroutine scheduler, but only those within the bound are explored)", "more lines / handlers", "REGISTER ordering (as in the property)"},
			Stubs:       []string{"goroutines = coroutines under the executor's scheduler (channel, mutex, WaitGroup, select, context models)", "bufio model, in-memory wire, proxy dialler stub"},
			QuickBudget: 6 * time.Minute, ThorBudget: 60 * time.Minute,
		},
		{
			ID: "C05", Title: "State tracking is applied before user handlers observe a line",
			Harnesses: []Harness{
				{Pkg: "client", Func: "VerifSession", Sched: true, Quick: map[string]int{"N": 3, "SW": 1, "KINDS": 0, "TRACK": 1}, Thorough: map[string]int{"N": 3, "SW": 2, "KINDS": 0, "TRACK": 1}, Asserts: []string{"tracker-reflects-the-line-at-handler-entry", "tracker-not-ahead-while-fg-handler-runs"}},
				{Pkg: "client", Func: "VerifSession", Sched: true, Quick: map[string]int{"N": 3, "SW": 1, "KINDS": 0, "TRACK": 1, "SCRIPT": 1}, Thorough: map[string]int{"N": 5, "SW": 1, "KINDS": 0, "TRACK": 1, "SCRIPT": 1}, Asserts: []string{"tracker-reflects-the-line-at-handler-entry", "tracker-not-ahead-while-fg-handler-runs"}, Note: "tracker-centred script: own JOIN, other JOIN, NICK, MODE +o, TOPIC; handlers read channel snapshots"},
				{Pkg: "client", Func: "VerifSession", Sched: true, Quick: map[string]int{"N": 3, "SW": 1, "KINDS": 0, "TRACK": 1, "SCRIPT": 1, "FRAG": 1}, Thorough: map[string]int{"N": 4, "SW": 2, "KINDS": 0, "TRACK": 1, "SCRIPT": 1, "FRAG": 1}, Asserts: []string{"tracker-reflects-the-line-at-handler-entry", "fg-handlers-in-wire-order"}, Note: "the server hangs up mid-stream: the last line arrives without CR-LF, then EOF"},
				{Pkg: "client", Func: "VerifSession", Sched: true, Quick: map[string]int{"N": 5, "SW": 1, "KINDS": 0, "TRACK": 1, "SCRIPT": 2, "TSEQ": 2}, Thorough: map[string]int{"N": 5, "SW": 1, "KINDS": 0, "TRACK": 1, "SCRIPT": 2}, Asserts: []string{"tracker-reflects-the-line-at-handler-entry", "tracker-not-ahead-while-fg-handler-runs"}, Note: "the server uses the IRCv3 batch form (BATCH +r, two tagged members, BATCH -r)"},
				{Pkg: "client", Func: "VerifC05Internal", Asserts: []string{"state-handler-is-internal", "state-handler-not-in-user-sets"}},
			},
			Bounds:      map[string]string{"quick": "the C03 session (3 lines: 001 changing the nick, own JOIN creating the channel, another user's JOIN) with state tracking on: every foreground and background user handler checks at entry that the tracker reflects its line, and a foreground handler that yields mid-way checks that the next line is not applied yet; schedules within delay bound 1; a second, tracker-centred script (own JOIN, another user's JOIN, that user's NICK; thorough adds MODE +o and TOPIC) where the handlers read the channel snapshot and compute which line the tracker has reached; plus: every state handler is registered in the internal set only", "thorough": "3 lines with delay bound 2; tracker-centred script of 5 lines with delay bound 1"},
			Outside:     []string{"other state-changing verbs in the scheduled session (what each handler does to the tracker is C13's subject)", "schedules beyond the delay bound"},
			Stubs:       []string{"as C03"},
			QuickBudget: 6 * time.Minute, ThorBudget: 60 * time.Minute,
		},
		{
			ID: "C06", Title: "Lifecycle events fire exactly once and agree with Connected()",
			Harnesses: []Harness{
				{Pkg: "client", Func: "VerifC06Refused", Asserts: []string{"refused-with-error", "no-event-fired", "live-connection-untouched", "close-noop-returns-nil", "tracker-not-wiped"}},
				{Pkg: "client", Func: "VerifC18Dial", Quick: map[string]int{"HL": 1}, Thorough: map[string]int{"HL": 2}, Asserts: []string{"failed-connect-fires-nothing", "failed-connect-not-connected", "register-once-before-connect-returns"}, Note: "dial error / TLS handshake failure"},
				{Pkg: "client", Func: "VerifSession", Sched: true, Quick: map[string]int{"N": 2, "SW": 1, "KINDS": 1, "TRACK": 0}, Thorough: map[string]int{"N": 3, "SW": 1, "KINDS": 1, "TRACK": 1}, Asserts: []string{"DISCONNECTED-exactly-once", "REGISTER-exactly-once", "REGISTER-once-before-Connect-returns", "Connected-false-in-DISCONNECTED-handler", "Connected-true-in-REGISTER-handler"}},
				{Pkg: "client", Func: "VerifSession", Sched: true, Quick: map[string]int{"N": 2, "SW": 1, "KINDS": 1, "TRACK": 0, "EARLY": 1}, Thorough: map[string]int{"N": 3, "SW": 1, "KINDS": 1, "TRACK": 0, "EARLY": 1}, Asserts: []string{"DISCONNECTED-exactly-once", "REGISTER-exactly-once"}, Note: "ends while lines are in flight"},
				{Pkg: "client", Func: "VerifSession", Sched: true, Quick: map[string]int{"N": 2, "SW": 1, "KINDS": 0, "TRACK": 0, "EARLY": 1, "FLOODHOLD": 1, "SLIM": 1}, Thorough: map[string]int{"N": 3, "SW": 1, "KINDS": 1, "TRACK": 0, "EARLY": 1, "FLOODHOLD": 1, "SLIM": 1}, Asserts: []string{"DISCONNECTED-exactly-once", "REGISTER-exactly-once"}, Note: "flood control engaged: the connection ends while the sender is holding a line back"},
				{Pkg: "client", Func: "VerifC07Teardown", Sched: true, Quick: map[string]int{"INB": 70, "OUTB": 0, "SW": 0, "NOGATE": 1}, Thorough: map[string]int{"INB": 100, "OUTB": 0, "SW": 1, "NOGATE": 1}, Asserts: []string{"DISCONNECTED-delivered-once"}, Note: "the connection ends after the event loop has worked through 70 lines (14 PINGs answered, JOINs followed up) towards a stalled peer"},
				{Pkg: "client", Func: "VerifC06CancelDuringConnect", Sched: true, Quick: map[string]int{"SW": 1}, Thorough: map[string]int{"SW": 2}, Asserts: []string{"REGISTER-exactly-once", "DISCONNECTED-exactly-once"}},
				{Pkg: "client", Func: "VerifC06WriteError", Sched: true, Quick: map[string]int{"SW": 1}, Thorough: map[string]int{"SW": 2}, Asserts: []string{"DISCONNECTED-exactly-once"}},
			},
			Bounds:      map[string]string{"quick": "refused connects (no server / already connected) and Close when not connected, with and without tracking; dial error and TLS handshake failure; scripted sessions of 2 lines ended by server EOF, one Close, two Closes racing EOF - after delivery or while lines are in flight - and by an error on the k-th socket write or context cancellation; schedules within delay bound 1 with preemption at mutex operations and explicit yields; foreground handlers reply with Raw; a session with flood control on and already engaged (the sender holds back the first lines; timers fire only when nothing else can run) ended while lines are in flight", "thorough": "3 lines, delay bound 1 with tracking"},
			Outside:     []string{"schedules beyond the delay bound", "client pings (PingFreq > 0) in the scheduled sessions", "a successful reconnect while DISCONNECTED handlers run (C07)"},
			Stubs:       []string{"as C03; dialler / TLS stubs as C18"},
			QuickBudget: 6 * time.Minute, ThorBudget: 60 * time.Minute,
		},
		{
			ID: "C16", Title: "A misbehaving handler cannot stop event delivery",
			Harnesses: []Harness{
				{Pkg: "client", Func: "VerifSession", Sched: true, Quick: map[string]int{"N": 3, "SW": 1, "KINDS": 0, "TRACK": 1, "PANICS": 1}, Thorough: map[string]int{"N": 3, "SW": 2, "KINDS": 0, "TRACK": 1, "PANICS": 1}, Asserts: []string{"every-panic-reached-Recover", "every-handler-of-every-line-exactly-once", "DISCONNECTED-exactly-once", "DISCONNECTED-not-delayed-by-stuck-background-handler"}},
				{Pkg: "client", Func: "VerifC16Recover", Asserts: []string{"recover-called-with-conn-and-line", "handle-returns-normally", "default-logs-an-error", "builtin-handler-panic-recovered", "later-handlers-still-run", "every-panic-handed-to-the-configured-recover", "default-logs-every-panic"}},
				{Pkg: "client", Func: "VerifC16Builtin", Asserts: []string{"builtin-handler-panic-recovered", "later-handlers-still-run"}, Note: "every built-in verb without parameters from 4 kinds of source, then a well-formed line per verb"},
				{Pkg: "client", Func: "VerifC16Background", Asserts: []string{"foreground-not-delayed-by-stuck-background"}},
			},
			Bounds:      map[string]string{"quick": "the C03 session where one designated handler invocation (any line, foreground or background) panics or - background - never returns: the panic reaches the configured Recover, every other handler of that line and of all later lines still runs exactly once, DISCONNECTED still arrives once; hNode.Handle with handlers panicking with a string / error / runtime error / struct, default LogPanic; a built-in handler panicking on a malformed line; every verb with a built-in handler as a parameterless line from no source / the client / another user / the server, tracking on/off, followed by a well-formed line for each of 20 built-in verbs and a user event (a deadlock is a violation); 40 events with a background handler that never returns, the event itself having 0..2 foreground handlers, each followed by a different event", "thorough": "3 lines, delay bound 2"},
			Outside:     []string{"panic(nil)", "a user Recover that does not call recover()", "schedules beyond the delay bound"},
			Stubs:       []string{"as C03"},
			QuickBudget: 6 * time.Minute, ThorBudget: 60 * time.Minute,
		},
		{
			ID: "C07", Title: "Disconnect always completes, leaks nothing, and the client can reconnect",
			Harnesses: []Harness{
				{Pkg: "client", Func: "VerifC07Teardown", Sched: true, Solver: "z3-lia", Quick: map[string]int{"INB": 3, "OUTB": 0, "SW": 1}, Thorough: map[string]int{"INB": 4, "OUTB": 2, "SW": 2}, Asserts: []string{"DISCONNECTED-delivered-once", "Close-returned", "monitor:no-goroutine-left-behind"}, Note: "small backlogs, delay-bounded schedules"},
				{Pkg: "client", Func: "VerifC07Teardown", Sched: true, Quick: map[string]int{"INB": 70, "OUTB": 0, "SW": 1}, Thorough: map[string]int{"INB": 100, "OUTB": 0, "SW": 1}, Asserts: []string{"DISCONNECTED-delivered-once"}, Note: "inbound backlog beyond twice the queue capacity"},
				{Pkg: "client", Func: "VerifC07Teardown", Sched: true, Quick: map[string]int{"INB": 0, "OUTB": 70, "SW": 0}, Thorough: map[string]int{"INB": 10, "OUTB": 100, "SW": 0}, Asserts: []string{"DISCONNECTED-delivered-once"}, Note: "a handler emitting more lines than twice the queue capacity to a stalled peer"},
				{Pkg: "client", Func: "VerifC07Teardown", Sched: true, Quick: map[string]int{"INB": 0, "OUTB": 40, "PRODUCER": 1, "SW": 0}, Thorough: map[string]int{"INB": 4, "OUTB": 60, "PRODUCER": 1, "SW": 1}, Asserts: []string{"DISCONNECTED-delivered-once"}, Note: "a user goroutine flooding a stalled peer"},
				{Pkg: "client", Func: "VerifC07Teardown", Sched: true, Quick: map[string]int{"INB": 70, "OUTB": 0, "SW": 0, "NOGATE": 1}, Thorough: map[string]int{"INB": 100, "OUTB": 0, "SW": 1, "NOGATE": 1}, Asserts: []string{"DISCONNECTED-delivered-once"}, Note: "the event loop has worked through the backlog (PINGs answered, JOINs followed up) towards a stalled peer"},
				{Pkg: "client", Func: "VerifC07Reconnect", Sched: true, Quick: map[string]int{"CYCLES": 2, "SW": 1, "KINDS": 1}, Thorough: map[string]int{"CYCLES": 2, "SW": 2, "KINDS": 1}, Asserts: []string{"old-teardown-disconnects-new-connection", "new-connection-stays-up", "new-socket-not-closed-by-old-teardown", "registration-reaches-the-new-socket", "REGISTER-once-per-connection", "DISCONNECTED-once-per-ended-connection"}},
				{Pkg: "client", Func: "VerifC07Wipe", Asserts: []string{"tracker-reset-on-connect", "tracker-is-just-the-client"}},
			},
			Bounds: map[string]string{"quick": "teardown (user Close from another goroutine / server EOF / context cancellation with the peer stalled for good / Close called from inside a background handler) behind a long-running foreground handler with 3 unprocessed lines (delay bound 1, flood control on/off, tracking on/off), with 70 unprocessed lines (> 2x the 32-slot queue; delay bound 1 so that select may pick the cancelled context while the queue is full), and with a handler emitting 70 lines to a stalled peer; 2 connect/disconnect cycles with the reconnect issued from the DISCONNECTED handler or from a goroutine it wakes (delay bound 1, preemption at mutex operations); tracker reset on connect",
				"thorough": "140-line backlogs, 3 cycles, delay bound 2"},
			Outside:     []string{"wall-clock time (the claim is: no state in which the disconnect can make no progress, within the explored schedules)", "schedules beyond the delay bound", "Close called from a foreground/internal handler; sends after DISCONNECTED (as in the property)"},
			Stubs:       []string{"as C03; in-memory wire whose Write waits for tokens (stalled peer)"},
			QuickBudget: 6 * time.Minute, ThorBudget: 60 * time.Minute,
		},
		{
			ID: "C09", Title: "Outgoing lines reach the server in order, once each",
			Harnesses: []Harness{
				{Pkg: "client", Func: "VerifC09Order", Sched: true, Quick: map[string]int{"S": 2, "L": 2, "SW": 1}, Thorough: map[string]int{"S": 3, "L": 3, "SW": 2}, Asserts: []string{"every-line-written-exactly-once", "line-is-the-next-of-its-sender-byte-for-byte", "all-lines-of-every-sender-arrived"}},
				{Pkg: "client", Func: "VerifC09Order", Sched: true, Quick: map[string]int{"S": 2, "L": 1, "BIG": 36, "SW": 1}, Thorough: map[string]int{"S": 2, "L": 2, "BIG": 40, "SW": 2}, Asserts: []string{"every-line-written-exactly-once", "line-is-the-next-of-its-sender-byte-for-byte"}, Note: "one sender with more lines outstanding than the queue holds"},
				{Pkg: "client", Func: "VerifC09Bytes", Asserts: []string{"wire-is-exactly-line-crlf", "raw-enqueues-the-line-unchanged", "no-byte-written-twice-after-a-timeout"}},
			},
			Bounds:      map[string]string{"quick": "2 senders (a user goroutine and a foreground handler) x 2 lines, and one sender with 37 lines against a 32-slot queue; peer reading fast / one line at a time / in one burst after everything was issued; schedules: run-until-block plus every schedule within delay bound 1 (block points, select, explicit yields after each Raw and each peer read); byte-exactness of write() for lines of 0,1,509..513,600,4000 bytes with a symbolic last byte (any value: a '%' must arrive as '%'); the same with a peer that accepts 0..3 bytes of the first socket write and then times out: no byte may reach it twice", "thorough": "3 senders x 3 lines, 42 lines backlog, delay bound 2"},
			Outside:     []string{"schedules beyond the delay bound", "flood control on (C10)", "what happens to later lines after a write error (the property is conditional on the connection staying up; only 'no byte twice' is asserted then)"},
			Stubs:       []string{"as C03; the peer is an in-memory wire whose Write waits for a token"},
			QuickBudget: 6 * time.Minute, ThorBudget: 60 * time.Minute,
		},
		{
			ID: "C13", Title: "Tracked state equals the server's ground truth for the client's channels",
			Harnesses: []Harness{
				{Pkg: "client", Func: "VerifC13Event", Quick: map[string]int{"NU": 1, "NC": 2}, Thorough: map[string]int{"NU": 2, "NC": 2},
					Asserts: []string{"GetNick", "GetChannel", "IsOn", "Me", "tracked-sets", "invariant", "requests-issued", "requests-count"}},
				{Pkg: "client", Func: "VerifC13Arbitrary", Quick: map[string]int{"NU": 1, "NC": 1, "NA": 2}, Thorough: map[string]int{"NU": 2, "NC": 1, "NA": 2},
					Asserts: []string{"client-still-tracked", "no-channel-without-the-client", "no-user-without-shared-channel"}},
				{Pkg: "client", Func: "VerifC13Truncated", Sched: true, Quick: map[string]int{"SW": 1}, Thorough: map[string]int{"SW": 2},
					Asserts: []string{"truncated:disconnected", "truncated:fragment-not-applied"}, Note: "the server hangs up mid-line: the fragment is not a message"},
			},
			Bounds:      map[string]string{"quick": "pre-state: any conformant network state over the client + 1 other user x 2 channels (names 1 symbolic byte, privileges/modes/topics/details symbolic), tracker built directly as its view; one event of {own JOIN + NAMES with prefixes (+332, +324), other's JOIN (known/new), PART with/without message, KICK with a comment / an empty one / none, QUIT with/without message, NICK, channel MODE (privilege / flags / +kl / -l), TOPIC, 352, own user MODE}; arbitrary lines: 15 handled verbs with source and 0..2 arguments drawn from the universe's names, fixed oddities or a symbolic byte", "thorough": "events: 2 other users x 2 channels; arbitrary lines: 2 other users x 1 channel, 0..2 arguments (2 users x 1 channel x 0..3 arguments ran clean once in 31 min, 3.4 M paths, and is not the registered bound)"},
			Outside:     []string{"larger universes (sessions are unbounded by induction over the conformant-state invariant)", "user modes inferred from WHO flags, -k followed by further arguments (as in the property)", "NAMES lists of more than three entries"},
			Stubs:       []string{"tracker pre-state built directly in the heap by an exported harness bridge in package state", "reflect.DeepEqual structural model", "goroutines as coroutines"},
			QuickBudget: 6 * time.Minute, ThorBudget: 40 * time.Minute,
		},
		{
			ID: "C20", Title: "The connection password never reaches the log",
			Harnesses: []Harness{
				{Pkg: "client", Func: "VerifC20Password", ValSet: true, Quick: map[string]int{"PL": 3}, Thorough: map[string]int{"PL": 6}, Asserts: []string{"password-not-in-log", "pass-line-masked", "something-was-logged"}},
				{Pkg: "client", Func: "VerifC20Password", ValSet: true, Quick: map[string]int{"PL": 2, "R": 2}, Thorough: map[string]int{"PL": 4, "R": 3}, Asserts: []string{"password-not-in-log", "pass-line-masked"}, Note: "several sessions on one client (welcomed, disconnected, reconnected)"},
				{Pkg: "client", Func: "VerifC20Password", ValSet: true, Quick: map[string]int{"PL": 1, "LONG": 1}, Thorough: map[string]int{"PL": 2, "LONG": 1}, Asserts: []string{"password-not-in-log"}, Note: "password of 521..524 bytes"},
			},
			Bounds:      map[string]string{"quick": "passwords of 1..3 symbolic bytes over a 13-symbol alphabet (5-9 # $ ~ ^ _ = + ?) disjoint from the library's own log texts and the scripted server's lines, plus a space anywhere but first (and 1 symbolic byte behind a 520-byte filler); one whole session per path: dial ok / refused, negotiation on/off, tracking on/off, flood control off (Flood=true), the k-th socket write failing (k = none,0..3), three server scripts (NOTICE, 001 welcome, a malformed line / a 433 nick collision before the welcome, then a forced NICK / CAP LS + ACK of 15 IRCv3 capabilities in common use, welcome, CAP NEW), Close; a REGISTER handler that leaves Config.Pass alone / wipes it / replaces it; a peer that reads at once or only after Connect returned; the same with 2 sessions in a row on one client (passwords 1..2 bytes); every format string and every string / error argument of every logger call is inspected", "thorough": "passwords up to 6 symbolic bytes; 3 sessions in a row with passwords up to 4 bytes"},
			Outside:     []string{"passwords that are substrings of texts the library logs anyway (e.g. '*')", "loggers that look at non-string arguments", "error texts produced by the real network stack (the dialler is a stub)"},
			Stubs:       []string{"proxy dialler stub, in-memory wire, bufio model, coroutine scheduler (goroutines run until they block)"},
			QuickBudget: 5 * time.Minute, ThorBudget: 30 * time.Minute,
		},
		{
			ID: "C19", Title: "Capability negotiation asks only for what both sides support and always ends",
			Harnesses: []Harness{
				{Pkg: "client", Func: "VerifC19Negotiation", Asserts: []string{"requests-exactly-wanted-and-advertised", "end-on-empty-intersection", "end-after-nak", "held-iff-acked", "end-after-ack-without-sasl", "not-held-after-minus-ack", "sasl-starts-after-ack-only", "sasl-payload-after-server-asked", "end-after-sasl-outcome", "end-after-later-ack"}},
				{Pkg: "client", Func: "VerifC19History", Quick: map[string]int{"K": 2}, Thorough: map[string]int{"K": 3}, Asserts: []string{"end-after-every-reply", "held-iff-latest-ack-enabled"}, Note: "arbitrary sequences of later ACK / -cap / NAK replies against a model"},
				{Pkg: "client", Func: "VerifC19History", Quick: map[string]int{"K": 2, "SASL": 1}, Thorough: map[string]int{"K": 2, "SASL": 1}, Asserts: []string{"end-after-every-reply", "held-iff-latest-ack-enabled"}, Note: "the same with SASL configured but never offered; replies may name -sasl"},
				{Pkg: "client", Func: "VerifC19History", Quick: map[string]int{"K": 1, "SASL": 1, "AUTH": 1}, Thorough: map[string]int{"K": 2, "SASL": 1, "AUTH": 1}, Asserts: []string{"end-after-every-reply", "no-sasl-data-without-acknowledged-sasl"}, Note: "SASL configured but never acknowledged: the server asks for authentication data right after LS or after the last reply"},
				{Pkg: "client", Func: "VerifC19Reconnect", Quick: map[string]int{"R": 2}, Thorough: map[string]int{"R": 3}, Asserts: []string{"reconnect:negotiation-started-once-per-connection", "reconnect:negotiation-ended-once-per-connection"}, Note: "2 (3) connections in a row on one client, real Connect/recv/send; ACK / NAK / empty intersection / SASL success, then the welcome"},
				{Pkg: "client", Func: "VerifC19Split", Asserts: []string{"split-every-name-once", "split-names-intact-in-order", "split-line-within-limit"}},
			},
			Bounds:      map[string]string{"quick": "universe of 2 symbolic capability names (1..2 bytes) + sasl; every subset wanted / advertised / acknowledged, NAK, later ACK of -cap; SASL none / PLAIN / EXTERNAL with credentials of 0..1 symbolic bytes and outcomes 903/904/908 (real go-sasl clients and an exact base64 model); request splitting with 4 names of lengths 220, 216..224, 1..3, 440; histories: after LS, any 2 later replies, each an ACK naming any subset of the two capabilities plain or with '-', in either order, or a NAK of any subset, against a latest-ACK-wins model, also with SASL configured but not offered and replies that name -sasl", "thorough": "histories of 3 replies (2 in the SASL-configured variant)"},
			Outside:     []string{"CAP LS continuation lines and capability values (sasl=PLAIN)", "larger universes, longer credentials", "SASL exchanges with further server challenges"},
			Stubs:       []string{"encoding/base64 StdEncoding: exact symbolic model", "sort.Strings model", "go-sasl executed from its own SSA"},
			QuickBudget: 5 * time.Minute, ThorBudget: 30 * time.Minute,
		},
		{
			ID: "C18", Title: "Registration and keep-alive follow the protocol",
			Harnesses: []Harness{
				{Pkg: "client", Func: "VerifC18Register", Asserts: []string{"registration-line-count", "registration-line"}},
				{Pkg: "client", Func: "VerifC18Dial", Quick: map[string]int{"HL": 2}, Thorough: map[string]int{"HL": 5}, Asserts: []string{"dialled-address", "register-once-before-connect-returns", "failed-connect-fires-nothing", "registration-sent"}},
				{Pkg: "client", Func: "VerifC18Entry", Quick: map[string]int{"R": 2}, Thorough: map[string]int{"R": 4}, Asserts: []string{"dialled-address", "registration-line-count", "registration-line"}, Note: "all five Connect* entry points, reconnects"},
				{Pkg: "client", Func: "VerifC18Ping", Quick: map[string]int{"TL": 3}, Thorough: map[string]int{"TL": 8}, Asserts: []string{"pong-same-token", "ping-token-parsed"}},
				{Pkg: "client", Func: "VerifC18LongPing", Asserts: []string{"pong-same-token", "one-line-received"}},
				{Pkg: "client", Func: "VerifC18Keepalive", Asserts: []string{"monitor:ping-goroutine-started", "monitor:no-ping-goroutine", "monitor:one-ping-per-tick"}},
			},
			Bounds: map[string]string{"quick": "registration: CAP negotiation on/off, password 0..2 bytes, nick/ident/name 1..2 bytes (all bytes but CR/LF), tracking on/off; dial: host 1..2 ASCII bytes, without port / with :port (0..2 digits) / bracketed IPv6 with port, SSL on/off, dial ok/refused, through a harness proxy dialer, with the server and the SSL switch set before the client is built or on Config() afterwards; PING tokens 0..3 bytes as trailing or middle parameter, with/without source, and a 4200..4202-byte token through the real recv loop; PingFreq any value in [-5, 2^40]; entry points: 2 connects in a row on one client through any of Connect / ConnectContext / ConnectTo(host) / ConnectTo(host, pass) / ConnectToContext, password 0..1 bytes, negotiation on/off",
				"thorough": "host up to 5 bytes, tokens up to 8 bytes, 4 connects in a row"},
			Outside:     []string{"the direct (non-proxy) dial path and real TLS (the dialler and the handshake are stubs)", "bare or port-less bracketed IPv6 literals", "the tick period in real time; the PING payload text (fmt.Sprintf is a stub)", "tokens longer than the bound (lines beyond bufio's buffer are covered by C01's delivery harness)"},
			Stubs:       []string{"x/net/proxy.FromURL dispatches to the harness dialer registered for scheme vtest", "crypto/tls.Client + Handshake: fails", "time.NewTicker: N queued ticks", "context model", "fmt.Sprintf arbitrary text"},
			QuickBudget: 5 * time.Minute, ThorBudget: 30 * time.Minute,
		},
		{
			ID: "C17", Title: "The client always knows its own current nick",
			Harnesses: []Harness{
				{Pkg: "client", Func: "VerifC17Step", Quick: map[string]int{"NL": 2}, Thorough: map[string]int{"NL": 4},
					Asserts: []string{"asks-for-generated-nick", "config-me-non-nil", "me-non-nil", "me-is-servers-nick", "no-unprompted-nick-change", "unaffected-by-old-nick-holder"}},
				{Pkg: "client", Func: "VerifC17Reconnect", Asserts: []string{"reconnect:me-non-nil", "reconnect:me-is-servers-nick", "reconnect:registers-with-current-nick", "reconnect:asks-for-generated-nick"}, Note: "two connections on one client: renamed by the server, reconnect, 433 on the current nick, welcome under the generated one"},
				{Pkg: "client", Func: "VerifC17LongLine", Asserts: []string{"longline:delivered-as-one-message", "longline:me-is-servers-nick"}, Note: "a chat line longer than the read buffer whose tail reads like a NICK change of the client"},
				{Pkg: "client", Func: "VerifC17NewNick", Asserts: []string{"same-length", "same-prefix", "last-byte-differs"}},
			},
			Bounds:      map[string]string{"quick": "one server event {433 before the welcome, 001 same/different nick with/without nick!user@host, own NICK (both parameter forms), 433 after the welcome, NICK of another user} from any state satisfying 'Me().Nick = server's nick'; nicks 1..2 symbolic bytes; tracking on/off; default generator and a custom one that is not a pure function (a different nick on every call: what is recorded as the client's nick must be what was sent); DefaultNewNick for all byte strings of length 1..3", "thorough": "nicks 1..4 bytes"},
			Outside:     []string{"longer nicks, more than one other tracked user", "non-conformant servers (433 before the welcome for a nick other than the pending one; renaming onto a nick in use)"},
			Stubs:       []string{"goroutines run to completion", "sync.* ghost models; sync.Pool: Get returns the most recently Put object (recycling is the adversarial legal behaviour)"},
			Assumptions: []string{"server conformance as stated in the property"},
			QuickBudget: 5 * time.Minute, ThorBudget: 30 * time.Minute,
		},
		{
			ID: "C14", Title: "Tracker answers are private snapshots, and the tracker is safe to share",
			Harnesses: []Harness{
				{Pkg: "state", Func: "VerifC14Step", Quick: map[string]int{"NN": 2, "NC": 1}, Thorough: map[string]int{"NN": 3, "NC": 2},
					Asserts: []string{"at-most-one-critical-section", "lock-released", "monitor:all-accesses-under-lock", "result-is-private-copy", "answers-share-nothing-with-each-other"}},
			},
			Bounds:      map[string]string{"quick": "pre-state: any valid tracker state over 2 nick slots x 1 channel (as C12); one call of each of the 16 Tracker methods and of String() with symbolic name arguments; the lock monitor covers map accesses, stores and - for fields that some function of the package stores to outside construction - reads", "thorough": "3 nick slots x 2 channels"},
			Outside:     []string{"larger universes", "the step from 'every method body is exactly one critical section of one mutex, with every access to tracker-owned heap inside it' to linearizability and data-race freedom is the textbook argument and is not solver-checked; no concurrent history is executed"},
			Stubs:       []string{"sync.Mutex / RWMutex ghost model with acquisition counter", "heap-reachability intrinsic vShares", "ChanMode / NickMode / ChanPrivs String() (reflection-based formatting): receiver counted as read, fixed text returned"},
			QuickBudget: 5 * time.Minute, ThorBudget: 30 * time.Minute,
		},
		{
			ID: "C12", Title: "The state tracker behaves as a relational model of nicks and channels",
			Harnesses: []Harness{
				{Pkg: "state", Func: "VerifC12Step", Quick: map[string]int{"NN": 3, "NC": 1, "ML": 2, "OP": -2, "WARM": 1}, Thorough: map[string]int{"NN": 3, "NC": 2, "ML": 3, "OP": -2, "WARM": 1},
					Asserts: []string{"invariant", "GetNick", "GetChannel", "Me", "IsOn", "tracked-sets", "ReNick-result", "DelChannel-result"}, Note: "all methods but ChannelModes"},
				{Pkg: "state", Func: "VerifC12Step", Quick: map[string]int{"NN": 2, "NC": 1, "ML": 1, "MA": 1, "OP": 8, "WARM": 1}, Thorough: map[string]int{"NN": 2, "NC": 1, "ML": 2, "MA": 2, "OP": 8, "WARM": 1},
					Asserts: []string{"ChannelModes-result", "invariant"}, Note: "ChannelModes, every byte value"},
				{Pkg: "state", Func: "VerifC12Step", Quick: map[string]int{"NN": 2, "NC": 1, "ML": 3, "MA": 2, "OP": 8, "WARM": 1, "ALPHA": 1, "PLUS": 1, "ONCHAN": 1}, Thorough: map[string]int{"NN": 2, "NC": 1, "ML": 3, "MA": 2, "OP": 8, "WARM": 1, "ALPHA": 1, "ONCHAN": 1},
					Asserts: []string{"ChannelModes-result", "invariant"}, Note: "ChannelModes, representative alphabet"},
			},
			Bounds:      map[string]string{"quick": "pre-state: ANY valid tracker state over 2 nick slots (the client + 1) x 1 channel with every attribute, mode flag and privilege symbolic, names distinct symbolic 1-byte strings (channel names # or &); one call of each of the 13 mutating/query methods + NewTracker with symbolic arguments (names and NickInfo fields of 0..1 bytes); every query is also run once BEFORE the call, so that anything an implementation memoises on a query is populated when the mutation happens; ChannelModes: 1 mode byte over all 256 values with <= 1 argument, and '+' followed by 2 bytes over a representative alphabet {+,-,i,k,l,o,v,?} with <= 2 arguments", "thorough": "3 nick slots x 2 channels; ChannelModes: 2 bytes over all values, 3 over the representative alphabet, <= 2 arguments"},
			Outside:     []string{"larger universes (histories are unbounded by induction over the representation invariant)", "String() debug output", "mode strings in which an unspecified argument consumption (privilege change for a nick not on the channel, key removal) is followed by another argument-taking mode (left open by the property)"},
			Stubs:       []string{"strconv.Atoi exact model (<= 18 digits)", "sync.Mutex ghost model", "map iteration: every order for maps of <= 3 entries"},
			QuickBudget: 5 * time.Minute, ThorBudget: 40 * time.Minute,
		},
		{
			ID: "C04", Title: "Every registered handler runs exactly once per matching event",
			Harnesses: []Harness{
				{Pkg: "client", Func: "VerifC04Step", Quick: map[string]int{"N": 2}, Thorough: map[string]int{"N": 3},
					Asserts: []string{"add-model", "remove-model", "snapshot-model", "post-invariant", "one-critical-section", "monitor:all-accesses-under-lock", "empty-list-dropped"}},
				{Pkg: "client", Func: "VerifC04History", Quick: map[string]int{"K": 5}, Thorough: map[string]int{"K": 7}, Asserts: []string{"history:each-live-handler-once-removed-never"}},
				{Pkg: "client", Func: "VerifC04Dispatch", OrderDep: true, Quick: map[string]int{"N": 2}, Thorough: map[string]int{"N": 3},
					Asserts: []string{"each-once", "ran-exactly-the-registered-count", "late-registration-runs-next-time", "post-invariant"}},
				{Pkg: "client", Func: "VerifC04Many", OrderDep: true, Quick: map[string]int{"SIZES": 9}, Thorough: map[string]int{"SIZES": 11},
					Asserts: []string{"many:each-registered-handler-once", "many:late-registration-not-run-for-this-event", "many:next-event-each-live-handler-once-removed-never", "many:late-registration-runs-next-time"}, Note: "7..33 (thorough ..65) handlers on one event, foreground or background; any one of them removes itself or registers another from inside"},
			},
			Bounds:      map[string]string{"quick": "pre-state: any well-formed handler set over 2 distinct symbolic names (1-2 ASCII bytes) with 0..2 handlers each, built directly in the heap; one add (either name in any letter case, or a third name) / remove (any node) / snapshot; dispatch of an event in any letter case with self-removal, sibling removal and registration from inside a handler (a deadlock is a violation; the snapshot is observed by dispatching an event and seeing which handlers run); plus concrete-shape histories of 5 operations (add under either of two names in either case / remove any earlier handler / dispatch) from the empty set against a list model", "thorough": "0..3 handlers per name; histories of 7 operations"},
			Outside:     []string{"more names/handlers than the bound (history length is unbounded by induction)", "true interleavings of racing Handle/Remove with dispatch: decided only through 'each operation is one critical section with every access inside it' (solver-checked on all paths) plus the textbook atomicity argument (not solver-checked)", "background-dispatch start time (as in the property)"},
			Stubs:       []string{"sync.RWMutex / WaitGroup ghost models", "goroutines run to completion at wg.Wait"},
			QuickBudget: 5 * time.Minute, ThorBudget: 30 * time.Minute,
		},
		{
			ID: "C15", Title: "Each handler invocation gets its own copy of the line",
			Harnesses: []Harness{
				{Pkg: "client", Func: "VerifC15Copies", Quick: map[string]int{"A": 2}, Thorough: map[string]int{"A": 3, "A15": 1},
					Asserts: []string{"equal-on-entry", "private-from-original", "private-from-each-other", "original-unchanged", "each-handler-invoked-once"}},
				{Pkg: "client", Func: "VerifC15Copies", Quick: map[string]int{"A": 1, "D": 2}, Thorough: map[string]int{"A": 1, "D": 3},
					Asserts: []string{"equal-on-entry", "private-from-each-other"}, Note: "several events in a row; handlers keep and edit their lines after returning"},
				{Pkg: "client", Func: "VerifC15Async", Sched: true, Quick: map[string]int{"SW": 1}, Thorough: map[string]int{"SW": 2}, Asserts: []string{"async:each-background-handler-invoked-once", "async:background-line-equals-its-event"}, Note: "a background handler that starts only after the reader has gone on to the next line still gets its own event"},
				{Pkg: "client", Func: "VerifC15Copies", Quick: map[string]int{"A": 1, "MANY": 1}, Thorough: map[string]int{"A": 2, "MANY": 1, "D": 2},
					Asserts: []string{"equal-on-entry", "private-from-each-other", "each-handler-invoked-once"}, Note: "9 / 17 / 33 handlers in the foreground or background set"},
				{Pkg: "client", Func: "VerifC15Copies", Quick: map[string]int{"A": 1, "RECOVER": 1}, Thorough: map[string]int{"A": 2, "RECOVER": 1, "D": 2},
					Asserts: []string{"equal-on-entry", "private-from-each-other", "original-unchanged"}, Note: "one handler panics; the configured recovery function edits the line it is handed"},
			},
			Bounds:      map[string]string{"quick": "lines with 0..2 arguments (0..2 symbolic bytes each), Tags nil / empty / 1 / 2 entries; 0..1 internal, 0..2 foreground, 0..2 background handlers that keep their line and overwrite every mutable part of it on entry and again after returning; one event, and 2 events in a row (0..1 arguments) with storage compared across events", "thorough": "0..2 and 15 arguments (one byte each); 3 events in a row (0..1 arguments)"},
			Outside:     []string{"more handlers / arguments than the bound", "true interleavings of the handler bodies: the deterministic run-to-completion schedule suffices because pairwise heap-disjointness of everything the handlers can reach through their argument is exactly what is asserted"},
			Stubs:       []string{"goroutines run to completion at the spawner's wg.Wait (one legal schedule)", "sync.* ghost models; sync.Pool: Get returns the most recently Put object (recycling is the adversarial legal behaviour)"},
			QuickBudget: 5 * time.Minute, ThorBudget: 30 * time.Minute,
		},
		{
			ID: "C10", Title: "Flood protection follows Hybrid's penalty rule",
			Harnesses: []Harness{
				{Pkg: "client", Func: "VerifC10Step", Asserts: []string{"penalty-rule", "hold-iff-over-10s", "lastsent-is-a-reading-taken-during-the-call"}},
				{Pkg: "client", Func: "VerifC10Write", Asserts: []string{"flood-never-sleeps", "sleeps-own-charge", "sleep-before-write", "no-sleep-when-under", "penalty-rule"}},
				{Pkg: "client", Func: "VerifC10Window", Quick: map[string]int{"K": 4}, Thorough: map[string]int{"K": 5}, Solver: "z3-lia", Asserts: []string{"window-bound", "penalty-rule", "held-own-charge"}},
				{Pkg: "client", Func: "VerifC10Queued", Quick: map[string]int{"K": 4}, Thorough: map[string]int{"K": 5}, Solver: "z3-lia", Asserts: []string{"window-bound", "every-queued-line-reached-the-socket"}, Note: "a burst already queued when the real send goroutine starts; arrival = clock reading of the socket write carrying the line"},
			},
			Bounds: map[string]string{"quick": "one rateLimit step from ANY state (penalty 0..2^40 ns, line length 0..2^20, any clock readings); write() for lines of 0..3 bytes, Flood symbolic; 4 consecutive lines (lengths from {0,120,510}) from a fresh client with arbitrary idle gaps; a burst of 4 such lines already queued when the real send goroutine starts, each line timed by the socket write that carried it",
				"thorough": "same with 5 lines"},
			Outside:     []string{"runs of more than 4 (quick) / 5 (thorough) lines for the window bound (the per-step rule is checked from arbitrary states, i.e. for histories of any length)", "real sleeping and the OS clock (replaced by the model clock)", "a scheduling delay of more than 2 s between a line's accounting/hold and its socket write (environment contract)", "queued burst: a stall of more than 2 s between two consecutive clock readings beyond the holds requested in between (environment contract)"},
			Stubs:       []string{"time.Now = fresh non-decreasing solver variable per call", "time.After(d) = records d, advances the model clock by >= d", "bufio model over in-memory conn"},
			Assumptions: []string{"the window bound is checked as: total charge of a run <= time between its first and last socket write + 10 s + the two largest charges in the run", "window bound: each line reaches the socket within 2 s (the minimum charge) of the end of its accounting or hold; without this the solver finds a 6.25 s stall between rateLimit returning and WriteString that the real code cannot exhibit"},
			QuickBudget: 5 * time.Minute, ThorBudget: 40 * time.Minute,
		},
		{
			ID: "C08", Title: "Each API call writes only whole, single IRC commands of its own verb",
			Pre: c08MethodSet,
			Harnesses: []Harness{
				{Pkg: "client", Func: "VerifC08Commands", Quick: map[string]int{"A": 2, "V": 2}, Thorough: map[string]int{"A": 4, "V": 2},
					Asserts: []string{"no-crlf-in-line", "own-verb", "wire-is-line-crlf", "one-flush-per-line"}},
				{Pkg: "client", Func: "VerifC08Wire", Quick: map[string]int{"A": 1, "V": 1}, Thorough: map[string]int{"A": 2, "V": 1},
					Asserts: []string{"no-crlf-in-line", "own-verb", "wire-ends-with-crlf"}, Note: "connected client, real send goroutine; only the server end's bytes are looked at"},
				{Pkg: "client", Func: "VerifC08Wire", Quick: map[string]int{"A": 1, "V": 1, "FILL": 500, "FILLSPAN": 12}, Thorough: map[string]int{"A": 1, "V": 1, "FILL": 470, "FILLSPAN": 60},
					Asserts: []string{"no-crlf-in-line", "own-verb", "wire-ends-with-crlf"}, Note: "every argument preceded by a filler (lines around and beyond 512 bytes)"},
				{Pkg: "client", Func: "VerifC08Wire", Quick: map[string]int{"A": 1, "V": 0, "FILL": 4092, "FILLSPAN": 4, "NSL": 1}, Thorough: map[string]int{"A": 1, "V": 0, "FILL": 4088, "FILLSPAN": 12, "NSL": 1},
					Asserts: []string{"no-crlf-in-line", "own-verb", "wire-ends-with-crlf"}, Note: "arguments around bufio's 4096-byte buffer"},
			},
			Bounds:      map[string]string{"quick": "all 28 exported command methods; every string argument 0..2 arbitrary bytes (all 256 values; Ctcp verb ASCII), 0..2 variadic elements, SplitLen in {-1,0,12,13,16,450}; the same calls on a connected client (real Connect through a stub dialler, real send goroutine and write), looking only at the bytes at the server end: arguments 0..1 bytes, then every argument = a filler of 500..512 bytes + 0..1 arbitrary bytes (SplitLen 0/13/600), and a filler of 4092..4096 bytes (across bufio's buffer)", "thorough": "arguments 0..4 bytes; connected client: 0..2 bytes, fillers 470..530 and 4088..4100"},
			Outside:     []string{"argument lengths between the small bound and the filler windows, and beyond 4100 bytes", "bytes >= 0x80 in the CTCP verb", "filler bytes are a fixed 'x' (only the tail bytes are symbolic)"},
			Stubs:       []string{"bufio.Reader/Writer semantic model (fill-flush-continue for writes beyond the buffer) over the harness's in-memory net.Conn", "fmt.Sprintf/Sprintln = arbitrary text up to 2 bytes", "wire-framing predicates (stray CR/LF, CRLF termination, verb at every line start) built as single boolean terms over the transcript"},
			QuickBudget: 5 * time.Minute, ThorBudget: 60 * time.Minute,
		},
		{
			ID: "C11", Title: "Long messages are split losslessly into bounded pieces",
			Harnesses: []Harness{
				{Pkg: "client", Func: "VerifC11Split", Quick: map[string]int{"SMAX": 14, "EXTRA": 8}, Thorough: map[string]int{"SMAX": 16, "EXTRA": 14}},
				{Pkg: "client", Func: "VerifC11SymLen"},
				{Pkg: "client", Func: "VerifC11Wire", Quick: map[string]int{"EXTRA": 5}, Thorough: map[string]int{"EXTRA": 10}},
				{Pkg: "client", Func: "VerifC11Default", Quick: map[string]int{"K": 6, "OVER": 2}, Thorough: map[string]int{"K": 12, "OVER": 4}},
				{Pkg: "client", Func: "VerifC11Long", Quick: map[string]int{"SL": 600, "K": 6, "OVER": 2}, Thorough: map[string]int{"SL": 600, "K": 9, "OVER": 4}, Note: "SplitLen 600: lines longer than 512 bytes, read back from the server end"},
				{Pkg: "client", Func: "VerifC11Many", Quick: map[string]int{"PIECES": 40}, Thorough: map[string]int{"PIECES": 70}, Note: "more pieces than the output queue holds, to a peer that reads late; Timeout 0 / default"},
				{Pkg: "client", Func: "VerifC11Long", Quick: map[string]int{"SL": 0, "TGT": 80, "K": 6, "OVER": 2}, Thorough: map[string]int{"SL": 0, "TGT": 120, "K": 9, "OVER": 4}, Note: "default limit with a long target"},
			},
			Bounds:      map[string]string{"quick": "SplitLen 13..14 with texts of 0..SplitLen+8 bytes (all byte values but CR/LF); any SplitLen < 13 on the comparison; wire framing for 6 methods at SplitLen 13, text <= 18; default path at text length 450; connected client with SplitLen 600 (lines beyond 512 bytes) and with the default limit and an 80-byte target, Privmsg/Notice/Ctcp/CtcpReply, text = filler + 6 symbolic bytes around the limit + 0..2 beyond, pieces read back from the server end", "thorough": "SplitLen 13..16, texts up to SplitLen+14; wire text <= 23; default path 450..452 bytes with SplitLen in {-5,0,1,12}; long configurations with 9 symbolic bytes, 0..4 beyond, 120-byte target"},
			Outside:     []string{"texts longer than the bound (more than ~2-4 loop iterations)", "multi-byte character integrity (as in the property)"},
			Stubs:       []string{"strings.LastIndex as an ite-chain term (no fork)", "fmt.Sprintf = arbitrary text (Privmsgf)"},
			QuickBudget: 5 * time.Minute, ThorBudget: 40 * time.Minute,
		},
		{
			ID: "C01", Title: "Well-formed IRC messages parse to exactly the components that were sent",
			Harnesses: []Harness{
				{Pkg: "client", Func: "VerifC01Plain", Quick: map[string]int{"T": 1, "KL": 1, "VL": 2, "SL": 1, "VBL": 2, "M": 2, "ML": 2, "TL": 2},
					Thorough: map[string]int{"T": 1, "KL": 1, "VL": 2, "SL": 2, "VBL": 2, "M": 2, "ML": 2, "TL": 3}, Asserts: []string{"cmd", "arg", "args-count", "tag-value", "src-nick", "text", "target", "public", "raw"}},
				{Pkg: "client", Func: "VerifC01Plain", Quick: map[string]int{"T": 2, "KL": 1, "VL": 1, "SL": 1, "VBL": 1, "M": 0, "TL": 0},
					Thorough: map[string]int{"T": 2, "KL": 1, "VL": 2, "SL": 1, "VBL": 1, "M": 1, "ML": 1, "TL": 1}, Asserts: []string{"tag-value", "tags-count"}, Note: "two tags"},
				{Pkg: "client", Func: "VerifC01Plain", Quick: map[string]int{"T": 0, "SL": 1, "VBL": 1, "M14": 1, "TL": 1},
					Thorough: map[string]int{"T": 1, "KL": 1, "VL": 1, "SL": 1, "VBL": 2, "M14": 1, "TL": 2}, Asserts: []string{"args-count", "arg"}, Note: "13-14 middle parameters"},
				{Pkg: "client", Func: "VerifC01Ctcp", Quick: map[string]int{"T": 1, "KL": 1, "VL": 1, "SL": 1, "ML": 2, "CL": 2, "TL": 2},
					Thorough: map[string]int{"T": 1, "KL": 1, "VL": 1, "SL": 2, "ML": 2, "CL": 3, "TL": 3}},
				{Pkg: "client", Func: "VerifC01Deliver", Quick: map[string]int{"T": 1, "KL": 1, "VL": 1, "SL": 1, "VBL": 2, "TL": 1},
					Thorough: map[string]int{"T": 1, "KL": 1, "VL": 2, "SL": 2, "VBL": 3, "TL": 3}, Asserts: []string{"delivered-equal", "next-line-delivered"}},
				{Pkg: "client", Func: "VerifC01Deliver", Quick: map[string]int{"LONG": 1, "VBL": 1, "TL": 1}, Thorough: map[string]int{"LONG": 1, "VBL": 2, "TL": 2}, Asserts: []string{"delivered-equal", "next-line-delivered"}, Note: "long"},
				{Pkg: "client", Func: "VerifC15Async", Sched: true, Quick: map[string]int{"SW": 1}, Thorough: map[string]int{"SW": 2}, Asserts: []string{"async:each-background-handler-invoked-once", "async:background-line-equals-its-event"}, Note: "a background handler that starts only after the reader has gone on to the next line still gets its own event"},
			},
			Bounds:      map[string]string{"quick": "<=1 tag (key 1 B, value <=2 B), source parts 1 B, verb <=2 letters or 3 digits, <=2 middles of <=2 B with 1-2 spaces, trailing <=2 B; two tags (keys 1 B, values <=1 B) with a minimal rest; 13-14 middle parameters of 1 B; CTCP: verb <=2 B or ACTION, text <=2 B; delivery through recv incl. a 4200-byte line", "thorough": "1 tag with value <=2 B, source parts <=2 B, verb <=2 letters, <=2 middles, trailing <=3 B; two tags with values <=2 B and one middle; 13-14 middles with a tag; CTCP verb <=3 B, text <=3 B (larger thorough bounds were tried and did not finish within 40 min: not claimed)"},
			Outside:     []string{"bytes >= 0x80", "larger components", "what the property itself excludes (other white space, several spaces before the verb, CTCP without text, invalid escapes)"},
			Stubs:       []string{"strings.* models (ASCII)"},
			QuickBudget: 4 * time.Minute, ThorBudget: 60 * time.Minute,
		},
		{
			ID: "C02", Title: "No input from the server can crash the client",
			Harnesses: []Harness{
				{Pkg: "client", Func: "VerifC02Parse", Quick: map[string]int{"L": 6}, Thorough: map[string]int{"L": 9}},
				{Pkg: "client", Func: "VerifC02Prefixed", Quick: map[string]int{"L": 4}, Thorough: map[string]int{"L": 7}},
				{Pkg: "client", Func: "VerifC02Handlers", Quick: map[string]int{"L": 4}, Thorough: map[string]int{"L": 6}, Asserts: []string{"later-PING-still-answered", "later-line-still-dispatched", "capability-state-still-works"}},
				{Pkg: "client", Func: "VerifC02HandlerShapes", Quick: map[string]int{"L": 2}, Thorough: map[string]int{"L": 3}, Asserts: []string{"later-PING-still-answered", "later-line-still-dispatched", "capability-state-still-works"}},
				{Pkg: "client", Func: "VerifC02Recv", Quick: map[string]int{"L": 4}, Thorough: map[string]int{"L": 6}, Asserts: []string{"later-line-processed"}},
				{Pkg: "client", Func: "VerifC02Recv", Quick: map[string]int{"L": 1, "LONG": 4092, "LONGSPAN": 6}, Thorough: map[string]int{"L": 2, "LONG": 4080, "LONGSPAN": 30}, Asserts: []string{"later-line-processed"}, Note: "lines around and beyond the reader's 4096-byte buffer"},
				{Pkg: "client", Func: "VerifC02HandlerShapes", Quick: map[string]int{"L": 0, "RUN": 600}, Thorough: map[string]int{"L": 0, "RUN": 600}, Asserts: []string{"later-PING-still-answered", "later-line-still-dispatched"}, Note: "600 copies of one arbitrary byte value after each beginning"},
				{Pkg: "client", Func: "VerifC02Live", Quick: map[string]int{"L": 0, "RUN": 600}, Thorough: map[string]int{"L": 1, "RUN": 600}, Asserts: []string{"live:later-PING-answered-on-the-wire", "live:later-line-still-dispatched", "live:still-connected"}, Note: "the same over a live connection (real Connect, recv, runLoop, send, write): whatever the handlers answer, the connection stays up"},
				{Pkg: "client", Func: "VerifC02Live", Quick: map[string]int{"L": 1}, Thorough: map[string]int{"L": 2}, Asserts: []string{"live:later-PING-answered-on-the-wire", "live:later-line-still-dispatched", "live:still-connected"}, Note: "live connection, short symbolic suffixes"},
			},
			Bounds:      map[string]string{"quick": "ParseLine + Text/Target/Public on every ASCII byte string of length <= 6, and <= 4 bytes after 6 structural prefixes; every built-in handler's verb with 0..4 arbitrary ASCII bytes as the rest of the line, and 0..2 bytes after each of 37 well-formed beginnings (incl. complete CTCP messages with the closing \\001), tracking on/off, each followed by a well-formed line for every built-in verb and by CAP / PING / PRIVMSG (a deadlock or an unterminated loop is a violation); the same beginnings followed by 600 copies of ONE arbitrary byte value (all 256 but CR, LF and the UTF-8 lead bytes C2/E1/E2/E3); the real recv loop on 0..4 arbitrary ASCII bytes cut into two reads anywhere, and on lines of 4092..4098 bytes (reads split around the 4096-byte buffer), each followed by a well-formed line", "thorough": "lengths 9 / 7 / 6 / 3; recv junk 6 bytes; long lines 4080..4110"},
			Outside:     []string{"non-ASCII bytes other than as a run of one value; C2/E1/E2/E3 (lead bytes of multi-byte Unicode spaces, refused by the white-space models)", "line lengths between the short bound and the 600 / 4096 windows"},
			Stubs:       []string{"strings.* models (Fields/TrimSpace treat every byte >= 0x80 as non-space, exact in the absence of C2/E1/E2/E3; case mapping ASCII only)", "bufio.Reader ReadString/ReadLine/ReadSlice/ReadBytes models", "bytes and strings functions without a model are executed from their own SSA", "logging via real nullLogger", "a loop of the code under test that exceeds the unwinding bound is reported only if the native run of the same input does not terminate within 30 s"},
			QuickBudget: 4 * time.Minute, ThorBudget: 60 * time.Minute,
		},
	}
}

// c08Covered: the command methods driven by VerifC08Commands.
var c08Covered = map[string]bool{"Raw": true, "Pass": true, "Nick": true, "User": true, "Join": true, "Part": true, "Kick": true, "Quit": true,
	"Whois": true, "Who": true, "Privmsg": true, "Privmsgln": true, "Privmsgf": true, "Notice": true, "Ctcp": true, "CtcpReply": true,
	"Version": true, "Action": true, "Topic": true, "Mode": true, "Away": true, "Invite": true, "Oper": true, "VHost": true,
	"Ping": true, "Pong": true, "Cap": true, "Authenticate": true}

// c08MethodSet computes, from the SSA of the current tree, every exported method of
// *Conn in commands.go and every exported method that (transitively, through
// static calls) reaches the output queue, and reports the ones the harness does not drive.
func c08MethodSet(p *sym.Program) []string {
	var out []string
	for _, name := range p.ExportedConnMethodsSending() {
		if !c08Covered[name] {
			out = append(out, "exported command method (*Conn)."+name+" sends to the server but is not driven by the C08 harness")
		}
	}
	return out
}
