package main

import (
	"time"
)

func allChecks() []*Check {
	return []*Check{
		{
			ID: "C02", Title: "No input from the server can crash the client",
			Harnesses: []Harness{
				{Pkg: "client", Func: "VerifC02Parse", Quick: map[string]int{"L": 6}, Thorough: map[string]int{"L": 9}},
				{Pkg: "client", Func: "VerifC02Prefixed", Quick: map[string]int{"L": 4}, Thorough: map[string]int{"L": 7}},
			},
			Bounds:      map[string]string{"quick": "every ASCII byte string of length <= 6", "thorough": "every ASCII byte string of length <= 9"},
			Outside:     []string{"bytes >= 0x80", "longer lines"},
			Stubs:       []string{"strings.* models (ASCII)", "logging via real nullLogger"},
			QuickBudget: 4 * time.Minute, ThorBudget: 30 * time.Minute,
		},
	}
}
