package main

import (
	"time"
)

func allChecks() []*Check {
	return []*Check{
		{
			ID: "C01", Title: "Well-formed IRC messages parse to exactly the components that were sent",
			Harnesses: []Harness{
				{Pkg: "client", Func: "VerifC01Plain", Quick: map[string]int{"T": 1, "KL": 1, "VL": 2, "SL": 1, "VBL": 2, "M": 2, "ML": 2, "TL": 2},
					Thorough: map[string]int{"T": 2, "KL": 2, "VL": 3, "SL": 2, "VBL": 3, "M": 3, "ML": 2, "TL": 4}},
				{Pkg: "client", Func: "VerifC01Ctcp", Quick: map[string]int{"T": 1, "KL": 1, "VL": 1, "SL": 1, "ML": 2, "CL": 2, "TL": 2},
					Thorough: map[string]int{"T": 1, "KL": 2, "VL": 2, "SL": 2, "ML": 2, "CL": 3, "TL": 4}},
			},
			Bounds:      map[string]string{"quick": "<=1 tag (key 1 B, value <=2 B), source parts 1 B, verb <=2 letters or 3 digits, <=2 middles of <=2 B with 1-2 spaces, trailing <=2 B; CTCP: verb <=2 B or ACTION, text <=2 B", "thorough": "<=2 tags (key <=2 B, value <=3 B), source parts <=2 B, verb <=3 letters or 3 digits, <=3 middles, trailing <=4 B; CTCP verb <=3 B, text <=4 B"},
			Outside:     []string{"bytes >= 0x80", "larger components", "what the property itself excludes (other white space, several spaces before the verb, CTCP without text, invalid escapes)"},
			Stubs:       []string{"strings.* models (ASCII)"},
			QuickBudget: 4 * time.Minute, ThorBudget: 40 * time.Minute,
		},
		{
			ID: "C02", Title: "No input from the server can crash the client",
			Harnesses: []Harness{
				{Pkg: "client", Func: "VerifC02Parse", Quick: map[string]int{"L": 6}, Thorough: map[string]int{"L": 9}},
				{Pkg: "client", Func: "VerifC02Prefixed", Quick: map[string]int{"L": 4}, Thorough: map[string]int{"L": 7}},
			},
			Bounds:      map[string]string{"quick": "every ASCII byte string of length <= 6", "thorough": "every ASCII byte string of length <= 9"},
			Outside:     []string{"bytes >= 0x80", "longer lines"},
			Stubs:       []string{"strings.* models (ASCII)", "logging via real nullLogger"},
			QuickBudget: 4 * time.Minute, ThorBudget: 30 * time.Minute,
		},
	}
}
