package main

import (
	"fmt"
	"golang.org/x/tools/go/packages"
	"golang.org/x/tools/go/ssa"
	"golang.org/x/tools/go/ssa/ssautil"
)

func main() {
	cfg := &packages.Config{Mode: packages.LoadAllSyntax, Dir: "/repo"}
	pkgs, err := packages.Load(cfg, "./client", "./state", "./logging")
	if err != nil {
		panic(err)
	}
	prog, spkgs := ssautil.AllPackages(pkgs, ssa.InstantiateGenerics)
	_ = prog
	for _, p := range spkgs {
		if p != nil {
			p.Build()
			fmt.Println(p.Pkg.Path())
		}
	}
}
