// gosmt: solver-based checks of fluffle/goirc (see /verif/DESIGN.md).
//
//	gosmt check <ID> [--tier quick|thorough] [--only harness] [--param k=v]
//	gosmt replay <file.json>
//	gosmt list
package main

import (
	"flag"
	"fmt"
	"os"
	"runtime"
	"strconv"
	"strings"
	"time"

	"verif/engine/sym"
)

func main() {
	if len(os.Args) < 2 {
		usage()
	}
	switch os.Args[1] {
	case "check":
		os.Exit(cmdCheck(os.Args[2:]))
	case "replay":
		os.Exit(cmdReplay(os.Args[2:]))
	case "list":
		for _, c := range allChecks() {
			fmt.Printf("%s\t%s\n", c.ID, c.Title)
		}
	default:
		usage()
	}
}

func usage() {
	fmt.Fprintln(os.Stderr, "usage: gosmt check <ID> [--tier quick|thorough] | replay <file> | list")
	os.Exit(2)
}

func envOr(k, d string) string {
	if v := os.Getenv(k); v != "" {
		return v
	}
	return d
}

func cmdCheck(args []string) int {
	if len(args) < 1 {
		usage()
	}
	id := args[0]
	fs := flag.NewFlagSet("check", flag.ExitOnError)
	tier := fs.String("tier", envOr("VERIF_TIER", "quick"), "quick|thorough")
	only := fs.String("only", "", "run only harnesses whose name contains this")
	workers := fs.Int("workers", runtime.NumCPU(), "worker count")
	repo := fs.String("repo", envOr("VERIF_REPO", "/repo"), "repository root")
	verifDir := fs.String("verif", envOr("VERIF_DIR", "/verif"), "verif root")
	noReplay := fs.Bool("no-replay", false, "skip native replay of counterexamples")
	outDir := fs.String("out", envOr("VERIF_OUT", ""), "write evidence and replays under this directory instead of the verif root")
	var params multiFlag
	fs.Var(&params, "param", "override harness parameter k=v")
	fs.Parse(args[1:])
	seed, _ := strconv.Atoi(envOr("VERIF_SEED", "0"))

	var chk *Check
	for _, c := range allChecks() {
		if c.ID == id {
			chk = c
		}
	}
	if chk == nil {
		fmt.Fprintf(os.Stderr, "unknown check %s\n", id)
		return 2
	}
	t0 := time.Now()
	prog, err := sym.Load(*repo, *verifDir+"/harness")
	if err != nil {
		fmt.Fprintf(os.Stderr, "BROKEN-CHECK property=%s cannot load %s: %v\n", id, *repo, err)
		return 2
	}
	loadT := time.Since(t0)
	run := &Runner{Check: chk, Tier: *tier, Seed: seed, Prog: prog, Repo: *repo, Verif: *verifDir, Workers: *workers,
		Only: *only, NoReplay: *noReplay, Overrides: map[string]int{}, LoadTime: loadT, Out: *outDir}
	for _, p := range params {
		kv := strings.SplitN(p, "=", 2)
		if len(kv) == 2 {
			v, _ := strconv.Atoi(kv[1])
			run.Overrides[kv[0]] = v
		}
	}
	return run.Run()
}

type multiFlag []string

func (m *multiFlag) String() string     { return strings.Join(*m, ",") }
func (m *multiFlag) Set(s string) error { *m = append(*m, s); return nil }
