#!/usr/bin/env python3
"""Regenerates /verif/MANIFEST.json from the table below (kept next to the checks)."""
import json, sys
props=[json.loads(l)['id'] for l in open('/verif/properties.jsonl')]
TECH="bounded symbolic execution of the real go/ssa code; every branch, panic guard and assertion decided by SMT (z3, cross-checked with z3 5.1 and cvc5); counterexamples replayed natively"
CHECKS={
 "C17": dict(
   text="Bounded model checking by symbolic execution, inductive over server scripts: from any state in which the client's idea of its nick equals the server's (symbolic nicks, tracking on/off with the real tracker and another tracked user, default or uninterpreted custom generator) one server event - 433 before the welcome, 001 confirming or changing the nick (with/without nick!user@host), own NICK in both parameter forms, 433 after the welcome, NICK of another user - goes through the real ParseLine, dispatch and handlers; afterwards Me().Nick is again the server's nick, Me() and Config().Me are non-nil, and a collision is answered by exactly NICK <generator(refused)>. DefaultNewNick is checked for every byte string of length 1..3.",
   ref="DESIGN.md §4 C17",
   note="Bounds: nicks 1..2 bytes (quick) / 1..3 (thorough), at most one other tracked user. Server conformance assumed as in the property. Found D8 (Config().Me nil after a confirming 001), fixed in /repo d212308."),
 "C18": dict(
   text="Bounded model checking by symbolic execution: (a) the real h_REGISTER with symbolic negotiation flag, password, nick, ident, name: exact line sequence; (b) the real ConnectContext/internalConnect/dialProxy through a harness proxy dialler: dialled address equals the configured one with :6667/:6697 added iff no port was given, a failed dial or handshake fires nothing, a successful one dispatches REGISTER once before returning and the registration reaches the wire; (c) the real h_PING for symbolic tokens, also a >4096-byte token through the real recv loop; (d) the real postConnect/ping: the ping goroutine exists iff PingFreq > 0 (symbolic), and pings once per tick until cancelled.",
   ref="DESIGN.md §4 C18",
   note="Stubs: proxy.FromURL dispatching to the harness dialler, tls (handshake always fails), time.NewTicker with queued ticks, fmt.Sprintf model. The direct (non-proxy) dial path and real TLS are outside. Goroutine-count and ticker observations are 'monitor:' assertions (executor only)."),
 "C19": dict(
   text="Bounded model checking by symbolic execution of the real h_CAP, negotiateCapabilities, handleCapAck/Nak, capSet, h_AUTHENTICATE, h_903/904/908, Cap, splitArgs and the real go-sasl PLAIN/EXTERNAL clients over a universe of two symbolic capability names plus sasl: every subset wanted/advertised/acknowledged, NAK, later ACK of -cap, all SASL outcomes; asserted: the REQ line is exactly the sorted intersection, HasCapability iff last ACK enabled it, exactly the prescribed CAP END lines, AUTHENTICATE <mech> only after ACK and the base64 payload only after the server's AUTHENTICATE +; long requests are split with every name once, in order, within the limit.",
   ref="DESIGN.md §4 C19",
   note="Bounds: 2 names of 1..2 symbolic bytes + sasl; credentials 0..1 bytes; split with name lengths 220, 216..224, 1..3, 440. base64 is an exact symbolic model; sort.Strings forks on comparisons."),
 "C20": dict(
   text="Bounded model checking by symbolic execution of a whole session per path (real ConnectContext via a stub dialler, h_REGISTER, send/recv/runLoop as coroutines, write with a failing k-th socket write, received lines, Close) with a capturing logging.Logger installed through the real SetLogger: every format string and every string/error argument of every logger call is asserted not to contain the symbolic password; PASS lines appear only masked.",
   ref="DESIGN.md §4 C20",
   note="Bounds: password 1..2 (quick) / 1..4 (thorough) symbolic bytes over an alphabet disjoint from the library's own log texts, also behind a 520-byte filler. fmt.Sprintf/Errorf are modelled faithfully for %s/%v/%d/%q so formatted errors keep their operands. Flood=true (C10 covers the limiter)."),
 "C12": dict(
   text="Bounded model checking by symbolic execution, inductive in the history: the pre-state is ANY valid tracker state over a small universe (nick and channel slots, membership relation, every attribute, mode flag and privilege a solver variable) built directly in the heap as the real two-way maps; one real Tracker method call with symbolic arguments (go/ssa of state/tracker.go, nick.go, channel.go) is compared with a ~150-line relational model: equal return value, equal answer to every query (GetNick/GetChannel/IsOn/Me for every name of the universe plus the arguments), representation invariant kept. Map iteration inside delChannel/delNick/Wipe/ReNick is explored in every order. NewTracker is the base case, so histories of any length are covered by induction over the invariant.",
   ref="DESIGN.md §4 C12",
   note="Bounds: see evidence.bounds (quick: 3 nick slots x 1 channel, names 1 symbolic byte; ChannelModes 1 byte over all values, '+'+2 bytes over {+,-,i,k,l,o,v,?} with <= 2 args; thorough: 3 x 2, longer mode strings). Mode strings where an argument consumption left open by the property is followed by another argument-taking mode are excluded. strconv.Atoi is an exact model. String() is not compared."),
 "C14": dict(
   text="Bounded model checking by symbolic execution on C12's arbitrary pre-states: after one call of each of the 16 Tracker methods (1) the returned value and the tracker are heap-disjoint on the executor's object graph (no map, *NickMode, *ChanMode, *ChanPrivs or other mutable object reachable from both), which gives both directions of 'copies'; (2) a ghost-mutex monitor checks on every path that the call is at most one critical section of the tracker's mutex, that every map access and every store into tracker-owned objects happens with it held in the right mode, and that it is released.",
   ref="DESIGN.md §4 C14",
   note="The inference from (2) to linearizability / race freedom is the textbook mutual-exclusion argument and is not solver-checked; no concurrent history is executed. 'monitor:' violations are reported on the executor's evidence (not observable in a single-threaded native run); heap sharing and the acquisition count are replayed natively (reflect-based reachability, counting-mutex overlay). Bounds as C12."),
 "C04": dict(
   text="Bounded model checking by symbolic execution, inductive in the history: the pre-state is ANY well-formed handler set (2 symbolic names, 0..N handlers each) built directly in the heap, then one real hSet.add / hNode.Remove / getHandlers step with symbolic names in any letter case is executed from go/ssa and compared with a sequence model (invariant preserved, contents change exactly as the model says, case-insensitive names), so arbitrary histories are covered by induction on the invariant. The real hSet.dispatch / Conn.dispatch then runs on such a set with handlers that remove themselves, remove a sibling or register new handlers from inside: each registered handler exactly once, no deadlock, lock free afterwards. Racing callers: a ghost-lock monitor checks on every path that each operation is ONE critical section of the set's lock and that every map access / node store happens inside it.",
   ref="DESIGN.md §4 C04",
   note="Bounds: 2 names x 0..2 (quick) / 0..3 (thorough) handlers. The step from 'each operation is one critical section' to the outcome of truly racing calls is the standard atomicity argument and is not solver-checked. 'monitor:' violations are reported on the executor's evidence (a single-threaded native run cannot observe which lock guards an access); the acquisition count is replayed natively with a counting-mutex overlay. Goroutines run to completion at wg.Wait (one legal schedule; handler bodies only touch disjoint counters)."),
 "C15": dict(
   text="Bounded model checking by symbolic execution of the real Line.Copy, hSet.dispatch and Conn.dispatch with 0..1 internal, 0..2 foreground and 0..2 background handlers that overwrite every mutable part of their line (symbolic contents; Tags nil / empty / 1 / 2 entries; 0..N arguments): each invocation's line equals the event on entry, the lines of all invocations and the original are pairwise heap-disjoint (checked on the executor's heap graph: same map, overlapping backing arrays, same *Line), every handler ran once, the original is unchanged.",
   ref="DESIGN.md §4 C15",
   note="Bounds: 0..2 arguments (quick), 0..3 and 15 (thorough). Schedule argument: handler goroutines are run to completion one after another; pairwise disjointness of everything mutable reachable through the arguments is exactly what makes the result independent of the interleaving, and it is what is asserted."),
 "C10": dict(
   text="Bounded model checking by symbolic execution with time as a solver variable: every time.Now reading is a fresh non-decreasing 64-bit variable, time.After records its argument. (1) One real rateLimit step from an ARBITRARY state (penalty, last-accounting instant, line length, both clock readings symbolic) is asserted equal to Hybrid's rule written in the harness - an inductive step, so it covers histories of any length. (2) The real write(): Flood symbolic; sleeps exactly once for exactly the line's charge, before the bytes reach the wire, iff the new penalty exceeds 10 s; never with Flood. (3) k consecutive lines from a fresh client through write() with arbitrary idle gaps: per-step rule and the window bound for every run i..j. 64-bit wrap-around semantics are kept (bit-vectors; cvc5 --solve-bv-as-int=sum decides the window queries, z3 the rest). Counterexamples are replayed natively against a temporary copy of the sources whose clock calls are redirected to the counterexample's readings.",
   ref="DESIGN.md §4 C10",
   note="Bounds: k = 3 (quick) / 4 (thorough) lines with lengths from {0,120,510}; penalty <= 2^40 ns, length <= 2^20, clock < 2^50 ns. Environment contract for the window bound: a line reaches the socket within 2 s of the end of its accounting/hold (DESIGN.md explains why an unconstrained stall is not a finding). Real sleeping/OS clock are stubs."),
 "C08": dict(
   text="Bounded model checking by symbolic execution: each of the 28 exported command methods of *Conn is run from go/ssa with every argument byte a solver variable (all 256 values, CR/LF/NUL/\\x01 included), SplitLen from 6 representative values; the lines queued on the real output channel are asserted CR/LF-free and to begin with the method's verb, then the real write() is run over a bufio model on an in-memory connection and the wire is asserted to be exactly line+CRLF with one flush per line. Each assertion is an SMT validity query over all argument values within the length bound.",
   ref="DESIGN.md §4 C08",
   note="Bounds: arguments 0..2 bytes (quick) / 0..4 bytes (thorough), 0..2 variadic elements. The CTCP verb argument is ASCII (strings.ToUpper model). Stubs: bufio.Reader/Writer semantic model, fmt.Sprintf/Sprintln return arbitrary text <= 2 bytes. Trusted: go/ssa, interpreter, models, z3."),
 "C11": dict(
   text="Bounded model checking by symbolic execution of the real splitMessage / indexFragment and of Privmsg, Notice, Ctcp, CtcpReply, Action, Privmsgf: the text has a concrete length and fully symbolic bytes (all values but CR/LF), strings.LastIndex is encoded as an ite-chain term so the cut index is a solver variable whose feasible values are enumerated by the solver; asserted per split: piece length <= limit, '...' on all but the last, no empty piece, exact reassembly, short texts unsplit, and on the wire each piece framed as its own message to the same target in order.",
   ref="DESIGN.md §4 C11",
   note="Bounds: SplitLen 13..14 with texts up to SplitLen+8 (quick), 13..16 up to +14 (thorough) - i.e. the first 2-4 loop iterations with every byte layout; any SplitLen < 13 on the comparison; default limit 450 with a fixed 'a' filler and 6..12 symbolic bytes around the cut (a fully symbolic 451-byte text timed out in all solvers and is NOT claimed). Longer texts are outside. Trusted: go/ssa, interpreter, LastIndex/Join/ToUpper models, z3."),
 "C01": dict(
   text="Bounded model checking by symbolic execution of a serializer-first round trip: message components (tags, source, verb, middles, gaps, trailing, CTCP verb/text) are solver variables constrained only by RFC 2812 / IRCv3 well-formedness; a reference serializer builds the wire text, the real ParseLine / parseUserHost / Text / Target / Public (go/ssa of the working tree) are executed on it symbolically, and every field comparison is an SMT validity query. Holds for all component values within the size bounds; sat answers are replayed natively.",
   ref="DESIGN.md §4 C01",
   note="Bounds: see evidence.bounds (quick: <=1 tag, 1-byte source parts, <=2 middles, trailing <=2 B; thorough: <=2 tags, <=3 middles, trailing <=4 B). ASCII only. Trusted: go/ssa, interpreter semantics, ASCII models of strings.*, z3."),
 "C02": dict(
   text="Bounded model checking by symbolic execution: ParseLine, parseUserHost and Line.Text/Target/Public are executed from the go/ssa of /repo's working tree on a string whose every byte is a solver variable; every index, slice-bound and nil guard is an SMT query, so 'no panic' is decided for ALL ASCII strings up to the length bound (and after 11 verb-spelling prefixes), not for samples. A sat answer is turned into a concrete line and replayed against the compiled code before it is reported.",
   ref="DESIGN.md §4 C02",
   note="Bounds: quick = every ASCII string of length <= 6 plus prefixes + 4 symbolic bytes; thorough = length <= 9 / prefixes + 7. Trusted: go/ssa construction, the interpreter's instruction semantics, the ASCII models of strings.{Index,Split,SplitN,Fields,ToUpper,Trim,TrimSpace,HasPrefix,HasSuffix} and (*Replacer).Replace, z3. Bytes >= 0x80 and longer lines are outside the claim."),
}
NA_REASON="check not built yet (build in progress; see DESIGN.md section 4)"
m={"version":1,
 "setup_cmd":"cd /verif/engine && GOFLAGS=-mod=mod GOPROXY=off GOSUMDB=off GOTOOLCHAIN=local go build -o /verif/bin/gosmt ./cmd/gosmt",
 "hooks":{"guard":"verif","enable":"no hooks are committed to /repo: harness files under /verif/harness carry //go:build verif and are injected with go/packages Overlay (symbolic run) and `go test -tags verif -overlay` (native replay)","baseline_off_cmd":"cd /repo && GOFLAGS=-mod=mod go test -vet=off -count=1 ./...","source_commits":[],"add_only":True},
 "engines":[{"name":"gosym","path":"/verif/engine","serves_properties":sorted(CHECKS),"kind_free_text":"path-forking symbolic executor over go/ssa of /repo's working tree (rebuilt on every run); SMT (z3 4.8.12, cross-checked by z3 5.1.0 and cvc5) decides every branch, assertion and panic guard; counterexamples are replayed natively"}],
 "checks":[], "not_applicable":[]}
for p in props:
    if p in CHECKS:
        c=CHECKS[p]
        m["checks"].append({"property_id":p,
          "quick_cmd":"/verif/bin/gosmt check %s --tier quick"%p,
          "thorough_cmd":"/verif/bin/gosmt check %s --tier thorough"%p,
          "evidence_file":"/verif/evidence/%s.json"%p,
          "replay_cmd_template":"/verif/bin/gosmt replay {path}",
          "engine":"gosym",
          "level_claimed":{"category":"model_checking","text":c["text"],"design_ref":c["ref"]},
          "level_note":c["note"],
          "technique":c.get("tech",TECH)})
    else:
        m["not_applicable"].append({"property_id":p,"reason":NA.get(p,NA_REASON) if (NA:=globals().get('NA',{})) is not None else NA_REASON})
json.dump(m,open('/verif/MANIFEST.json','w'),indent=1)
print("checks:",[c["property_id"] for c in m["checks"]])
