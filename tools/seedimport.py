#!/usr/bin/env python3
"""seedimport.py PROP VARIANT 'caught-by text' — copy a confirmed seeded change into /verif/seeded/<PROP><VARIANT>/"""
import sys, os, json, shutil, glob
p, v, caught = sys.argv[1], sys.argv[2], sys.argv[3]
import os as _os
src = _os.environ.get("SEEDROOT","/tmp/seedout") + f"/{p}/{v}"
dst = f"/verif/seeded/{p}" + _os.environ.get("SEEDNAME", v)
os.makedirs(dst, exist_ok=True)
shutil.copy(f"{src}/patch.diff", dst)
for f in glob.glob(f"{src}/*_test.go") + glob.glob(f"{src}/*.go"):
    shutil.copy(f, dst)
meta = {}
try:
    meta = json.load(open(f"{src}/meta.json"))
except Exception as e:
    meta = {"note": "agent meta.json unreadable: %s" % e}
meta["property"] = p
meta["confirmed"] = {
    "how": "tools/seedconfirm.sh %s %s in a scratch worktree of /repo HEAD: patch applies and builds; existing suite passes with it; demo fails with it and passes without it" % (p, v),
    "check_result": caught,
}
json.dump(meta, open(f"{dst}/meta.json", "w"), indent=1)
print("imported", dst)
