#!/bin/bash
# usage: seedtry.sh <PROP> <variant> [tier] [checkID]   (env SEEDROOT)
# Like seedcheck.sh, but never touches /repo: the patch is applied in a scratch worktree
# and the check runs with --repo <worktree> --out <scratch>.
P=$1; V=$2; T=${3:-quick}; C=${4:-$P}
SRC=${SEEDROOT:-/tmp/seedout}/$P/$V
[ -d "$SRC" ] || SRC=/verif/seeded/$P$V
export GOFLAGS=-mod=mod GOPROXY=off GOSUMDB=off
wt=/tmp/seedtry_$P$V; out=/tmp/seedtry_out_$P$V
git -C /repo worktree remove --force $wt >/dev/null 2>&1; rm -rf $out
git -C /repo worktree add --detach $wt HEAD -q || exit 2
git -C $wt apply $SRC/patch.diff 2>/dev/null || git -C $wt apply --3way $SRC/patch.diff || { echo "patch does not apply"; git -C /repo worktree remove --force $wt; exit 3; }
VERIF_NOCROSS=1 /verif/bin/gosmt check $C --tier $T --repo $wt --out $out ${WORKERS:+--workers $WORKERS} 2>&1 | grep "^check\|VIOLATION\|BROKEN\|INCONC\|^  " | cut -c1-${CUT:-330} | head -${HEAD:-6}
echo "SEEDTRY $P$V check=$C exit=${PIPESTATUS[0]}"
git -C /repo worktree remove --force $wt >/dev/null 2>&1; rm -rf $out
