#!/bin/bash
# Runs every confirmed seeded change under /verif/seeded against the quick check of its
# property, each in its own scratch worktree of /repo HEAD (so /repo and /verif/evidence are
# not touched). usage: seedall.sh [jobs] [filter-regex]
J=${1:-2}; F=${2:-.}
export GOFLAGS=-mod=mod GOPROXY=off GOSUMDB=off
run_one() {
  d=$1; id=$(basename $d); p=${id:0:3}
  wt=/tmp/seedall_$id; out=/tmp/seedall_out_$id
  git -C /repo worktree remove --force $wt >/dev/null 2>&1; rm -rf $out
  git -C /repo worktree add --detach $wt HEAD -q || { echo "SEED $id worktree-failed"; return; }
  if ! git -C $wt apply $d/patch.diff 2>/dev/null && ! git -C $wt apply --3way $d/patch.diff 2>/dev/null; then echo "SEED $id patch-does-not-apply"; git -C /repo worktree remove --force $wt; return; fi
  VERIF_NOCROSS=1 VERIF_NOVALIDATE=1 /verif/bin/gosmt check $p --tier quick --repo $wt --out $out --workers 6 > /tmp/seedall_$id.log 2>&1
  rc=$?
  lab=$(grep -A1 "^VIOLATION" /tmp/seedall_$id.log | grep "^  " | head -1 | awk '{print $1, $2}')
  echo "SEED $id check=$p exit=$rc $lab"
  git -C /repo worktree remove --force $wt >/dev/null 2>&1; rm -rf $out
}
export -f run_one
ls -d /verif/seeded/C* | grep -v invalidated | grep -E "$F" | xargs -P $J -I{} bash -c 'run_one {}'
