#!/bin/bash
# usage: seedcheck.sh <PROP> <variant> [tier] [check-id]  — applies the seeded patch to /repo, runs the check, reverts.
set -u
P=$1; V=$2; T=${3:-quick}; C=${4:-$P}
if [ -n "${SEEDROOT:-}" ]; then SRC=$SEEDROOT/$P/$V; else SRC=/verif/seeded/$P$V; [ -d "$SRC" ] || SRC=/tmp/seedout/$P/$V; fi
cd /repo
git diff --quiet || { echo "/repo dirty"; exit 2; }
git apply $SRC/patch.diff 2>/dev/null || git apply --3way $SRC/patch.diff || { echo "PATCH DOES NOT APPLY"; exit 3; }
VERIF_NOCROSS=1 /verif/bin/gosmt check $C --tier $T > /tmp/seedcheck_$P$V.log 2>&1
rc=$?
git -C /repo checkout -- .
git -C /verif checkout -- evidence 2>/dev/null
grep -E "^(VIOLATION|INCONCLUSIVE|BROKEN|KNOWN|check)" /tmp/seedcheck_$P$V.log | cut -c1-300 | head -8
grep -A1 "^VIOLATION" /tmp/seedcheck_$P$V.log | grep "^  " | cut -c1-300 | head -3
echo "SEEDCHECK $P$V check=$C tier=$T exit=$rc"
