#!/bin/bash
# usage: seedconfirm.sh <PROP> <variant>   e.g. C08 a
# Confirms a seeded change in a scratch worktree of /repo HEAD: patch applies, builds,
# existing suite passes with it, demo fails with it and passes without it.
set -u
P=$1; V=$2
SRC=${SEEDROOT:-/tmp/seedout}/$P/$V
[ -d "$SRC" ] || SRC=/verif/seeded/$P$V
WT=/tmp/seedwt_$P$V
export GOFLAGS=-mod=mod GOPROXY=off GOSUMDB=off
git -C /repo worktree remove --force $WT 2>/dev/null
git -C /repo worktree add --detach $WT HEAD -q || exit 2
cd $WT
demo=$(ls $SRC/*_test.go 2>/dev/null | head -1)
pkgdir=client
grep -q "^package state" "$demo" && pkgdir=state
cp "$demo" $pkgdir/zz_seed_demo_test.go
echo "== demo on unchanged tree (want PASS)"
go test -vet=off -count=1 -run 'Demo|C[0-9][0-9]' ./$pkgdir/ 2>&1 | tail -3
base=$?
base_ok=$(go test -vet=off -count=1 -run 'Demo|C[0-9][0-9]' ./$pkgdir/ >/dev/null 2>&1 && echo pass || echo fail)
echo "== apply patch"
git apply $SRC/patch.diff 2>/dev/null || git apply --3way $SRC/patch.diff || { echo "PATCH DOES NOT APPLY"; cd /; git -C /repo worktree remove --force $WT; exit 3; }
go build ./... || { echo "BUILD FAILS"; }
echo "== demo with patch (want FAIL)"
mut_ok=$(go test -vet=off -count=1 -run 'Demo|C[0-9][0-9]' ./$pkgdir/ >/dev/null 2>&1 && echo pass || echo fail)
rm $pkgdir/zz_seed_demo_test.go
echo "== existing suite with patch (want PASS)"
suite=fail
for i in 1 2 3; do
  if go test -vet=off -count=1 ./... >/tmp/seedsuite_$P$V.log 2>&1; then suite=pass; break; fi
done
grep -E "^(FAIL|---)" /tmp/seedsuite_$P$V.log | head -5
echo "RESULT $P$V demo_unpatched=$base_ok demo_patched=$mut_ok suite_patched=$suite"
cd /
git -C /repo worktree remove --force $WT
